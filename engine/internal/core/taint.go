package core

import (
	"go/types"
	"strings"

	"golang.org/x/tools/go/ssa"
)

// Taint is a forward, interprocedural, field-based, context- and
// flow-insensitive value-flow closure over the repository's SSA.  It is an
// over-approximation of "may hold (data derived from) a source value":
// containers are collapsed (a tainted element taints the container), struct
// fields are identified by their declaration (object-insensitive), calls are
// resolved statically (plus closures); interface/func-value calls are resolved
// through the optional Dyn callback.
type Taint struct {
	C *Ctx
	// Model decides library/sanitizer behaviour for a call. tainted lists the
	// indices of tainted arguments (receiver first).  Return handled=false to
	// get the default behaviour.
	Model func(call ssa.CallInstruction, tainted []int) (result bool, handled bool)
	// Dyn resolves dynamic call targets (may be nil).
	Dyn func(call ssa.CallInstruction) []*ssa.Function
	// StopField: do not propagate through this field (named exception).
	StopField func(f *types.Var) bool
	// Block, when set, stops propagation from v into the user instruction
	// (sanitisation by a dominating check).
	Block func(v ssa.Value, user ssa.Instruction) bool
	// ExternalArgs: an external call with a tainted argument also taints its
	// pointer/slice/map/interface arguments and receiver (decoders, writers).
	ExternalArgs bool
	// KeysTaintMaps: a tainted key taints the whole map (off: only values do).
	KeysTaintMaps bool
	// Filter, when set, restricts taint to values for which it returns true
	// (e.g. only values whose type can hold an *os.File).
	Filter func(v ssa.Value) bool
	// Scope limits the functions analysed (nil = all repository functions).
	Scope func(fn *ssa.Function) bool

	// FieldSensitive: a tainted pointer/struct value taints its fields only when
	// it is "deep" tainted (it was filled by a decoder / external writer).
	FieldSensitive bool
	deep           map[ssa.Value]bool
	vals           map[ssa.Value]bool
	from           map[ssa.Value]ssa.Value // provenance for path reconstruction
	fields         map[*types.Var]ssa.Value
	globals        map[*ssa.Global]ssa.Value
	rets           map[*ssa.Function]map[int]ssa.Value // tainted result indices per function
	work           []ssa.Value

	fieldLoads  map[*types.Var][]ssa.Value  // FieldAddr / Field instructions per field
	globalLoads map[*ssa.Global][]ssa.Value // loads (UnOp) per global
	callers     map[*ssa.Function][]ssa.CallInstruction
	inited      bool
}

func (t *Taint) init() {
	if t.inited {
		return
	}
	t.inited = true
	t.vals = map[ssa.Value]bool{}
	t.deep = map[ssa.Value]bool{}
	t.from = map[ssa.Value]ssa.Value{}
	t.fields = map[*types.Var]ssa.Value{}
	t.globals = map[*ssa.Global]ssa.Value{}
	t.rets = map[*ssa.Function]map[int]ssa.Value{}
	t.fieldLoads = map[*types.Var][]ssa.Value{}
	t.globalLoads = map[*ssa.Global][]ssa.Value{}
	t.callers = t.C.StaticCallers()
	for _, fn := range t.C.RepoFunctions() {
		if t.Scope != nil && !t.Scope(fn) {
			continue
		}
		for _, b := range fn.Blocks {
			for _, in := range b.Instrs {
				switch x := in.(type) {
				case *ssa.FieldAddr:
					if f := fieldOfAddr(x); f != nil {
						t.fieldLoads[f] = append(t.fieldLoads[f], x)
					}
				case *ssa.Field:
					if st, ok := x.X.Type().Underlying().(*types.Struct); ok {
						f := st.Field(x.Field)
						t.fieldLoads[f] = append(t.fieldLoads[f], x)
					}
				case *ssa.UnOp:
					if g, ok := x.X.(*ssa.Global); ok {
						t.globalLoads[g] = append(t.globalLoads[g], x)
					}
				}
			}
		}
	}
}

func fieldOfAddr(fa *ssa.FieldAddr) *types.Var {
	pt, ok := fa.X.Type().Underlying().(*types.Pointer)
	if !ok {
		return nil
	}
	st, ok := pt.Elem().Underlying().(*types.Struct)
	if !ok {
		return nil
	}
	return st.Field(fa.Field)
}

// FieldOfAddr exposes fieldOfAddr.
func FieldOfAddr(fa *ssa.FieldAddr) *types.Var { return fieldOfAddr(fa) }

// Add marks v tainted (from = provenance, may be nil).
func (t *Taint) Add(v, from ssa.Value) {
	t.init()
	if v == nil || t.vals[v] {
		return
	}
	if _, isConst := v.(*ssa.Const); isConst {
		return
	}
	if t.Filter != nil && !t.Filter(v) {
		return
	}
	t.vals[v] = true
	if from != nil {
		t.from[v] = from
	}
	t.work = append(t.work, v)
}

// AddField taints a struct field (every access of it).
func (t *Taint) AddField(f *types.Var, from ssa.Value) {
	t.init()
	if f == nil {
		return
	}
	if _, ok := t.fields[f]; ok {
		return
	}
	if t.StopField != nil && t.StopField(f) {
		return
	}
	t.fields[f] = from
	for _, l := range t.fieldLoads[f] {
		t.Add(l, from)
	}
}

// AddDeep marks v tainted together with everything reachable from it
// (fields, elements): used for decode targets.
func (t *Taint) AddDeep(v, from ssa.Value) {
	t.init()
	if v == nil {
		return
	}
	if !t.deep[v] {
		t.deep[v] = true
		if t.vals[v] {
			t.work = append(t.work, v) // revisit with the stronger mark
		}
	}
	t.Add(v, from)
}

// AddDeepIf adds v, inheriting the deep mark of from.
func (t *Taint) AddDeepIf(v, from ssa.Value) {
	if t.deep[from] {
		t.AddDeep(v, from)
	} else {
		t.Add(v, from)
	}
}

// Has reports whether v is tainted.
func (t *Taint) Has(v ssa.Value) bool { return t.vals[v] }

// FieldTainted reports whether field f is tainted.
func (t *Taint) FieldTainted(f *types.Var) bool { _, ok := t.fields[f]; return ok }

// Path reconstructs the provenance chain of v (source first).
func (t *Taint) Path(v ssa.Value) []ssa.Value {
	var out []ssa.Value
	seen := map[ssa.Value]bool{}
	for v != nil && !seen[v] {
		seen[v] = true
		out = append(out, v)
		v = t.from[v]
	}
	for i, j := 0, len(out)-1; i < j; i, j = i+1, j-1 {
		out[i], out[j] = out[j], out[i]
	}
	return out
}

// isPointerLike: taint of an address means taint of its contents.
func (t *Taint) taintAddr(addr ssa.Value, from ssa.Value) {
	switch a := addr.(type) {
	case *ssa.FieldAddr:
		t.AddField(fieldOfAddr(a), from)
		t.Add(a, from)
	case *ssa.IndexAddr:
		t.Add(a, from)
		t.taintAddr(a.X, from)
		t.Add(a.X, from)
	case *ssa.Global:
		if _, ok := t.globals[a]; !ok {
			t.globals[a] = from
			for _, l := range t.globalLoads[a] {
				t.Add(l, from)
			}
		}
	case *ssa.Alloc:
		t.Add(a, from)
	case *ssa.UnOp:
		// store through a loaded pointer (*p = v)
		t.Add(a, from)
	case *ssa.Parameter, *ssa.FreeVar, *ssa.Phi, *ssa.Call, *ssa.Extract:
		t.Add(a, from)
	default:
		t.Add(addr, from)
	}
}

// Run propagates to a fixed point.
func (t *Taint) Run() {
	t.init()
	for len(t.work) > 0 {
		v := t.work[len(t.work)-1]
		t.work = t.work[:len(t.work)-1]
		t.step(v)
	}
}

func (t *Taint) inScope(fn *ssa.Function) bool {
	if fn == nil || fn.Blocks == nil || !IsRepoPkg(FnPkgPath(fn)) {
		return false
	}
	return t.Scope == nil || t.Scope(fn)
}

func (t *Taint) step(v ssa.Value) {
	// parameters / free variables have no referrers list problem; all values have Referrers except Function/Const/Global/Builtin
	// special: a tainted MakeClosure binding is handled when the binding value is visited (below)
	refs := v.Referrers()
	if refs == nil {
		return
	}
	for _, in := range *refs {
		if !t.inScope(in.Parent()) {
			continue
		}
		if t.Block != nil && t.Block(v, in) {
			continue
		}
		switch x := in.(type) {
		case *ssa.Phi, *ssa.Convert, *ssa.ChangeType, *ssa.ChangeInterface, *ssa.MakeInterface, *ssa.Slice, *ssa.SliceToArrayPointer:
			t.AddDeepIf(x.(ssa.Value), v)
		case *ssa.TypeAssert:
			t.AddDeepIf(x, v)
		case *ssa.Extract:
			t.AddDeepIf(x, v)
		case *ssa.BinOp:
			if _, ok := x.Type().Underlying().(*types.Basic); ok && x.Type().Underlying().(*types.Basic).Info()&types.IsString != 0 {
				t.Add(x, v)
			}
		case *ssa.UnOp:
			// load through tainted address, or receive from tainted channel
			t.AddDeepIf(x, v)
		case *ssa.Field:
			// field of a tainted struct value
			if !t.FieldSensitive || t.deep[v] {
				t.AddDeepIf(x, v)
			}
		case *ssa.FieldAddr:
			if x.X == v && (!t.FieldSensitive || t.deep[v]) {
				t.AddDeepIf(x, v)
			}
		case *ssa.Index:
			if x.X == v {
				t.AddDeepIf(x, v)
			}
		case *ssa.IndexAddr:
			if x.X == v {
				t.AddDeepIf(x, v)
			}
		case *ssa.Lookup:
			if x.X == v {
				t.AddDeepIf(x, v)
			}
		case *ssa.Range:
			t.AddDeepIf(x, v)
		case *ssa.Next:
			t.AddDeepIf(x, v)
		case *ssa.Store:
			if x.Val == v {
				t.taintAddr(x.Addr, v)
			}
		case *ssa.MapUpdate:
			if x.Value == v || (t.KeysTaintMaps && x.Key == v) {
				t.Add(x.Map, v)
				t.taintAddrOfValue(x.Map, v)
			}
		case *ssa.Send:
			if x.X == v {
				t.Add(x.Chan, v)
				t.taintAddrOfValue(x.Chan, v)
			}
		case *ssa.MakeClosure:
			fn := x.Fn.(*ssa.Function)
			for i, b := range x.Bindings {
				if b == v && i < len(fn.FreeVars) {
					t.Add(fn.FreeVars[i], v)
				}
			}
		case *ssa.Return:
			fn := x.Parent()
			for i, res := range x.Results {
				if res != v {
					continue
				}
				if t.rets[fn] == nil {
					t.rets[fn] = map[int]ssa.Value{}
				}
				if _, ok := t.rets[fn][i]; ok {
					continue
				}
				t.rets[fn][i] = v
				for _, site := range t.callers[fn] {
					t.addResult(site, len(x.Results), i, v)
				}
			}
		case ssa.CallInstruction:
			t.call(x, v)
		}
	}
}

// taintAddrOfValue: a container value (map/chan/slice) got a tainted element;
// if the container was loaded from a field/global/alloc, taint that storage.
func (t *Taint) taintAddrOfValue(cv ssa.Value, from ssa.Value) {
	switch x := cv.(type) {
	case *ssa.UnOp:
		t.taintAddr(x.X, from)
	case *ssa.Phi:
		for _, e := range x.Edges {
			if !t.vals[e] {
				t.Add(e, from)
			}
		}
	}
}

func (t *Taint) call(ci ssa.CallInstruction, v ssa.Value) {
	cc := ci.Common()
	var idx []int
	args := cc.Args
	off := 0
	if cc.IsInvoke() {
		off = 1
		if cc.Value == v {
			idx = append(idx, 0)
		}
	}
	for i, a := range args {
		if a == v || t.vals[a] {
			idx = append(idx, i+off)
		}
	}
	if !cc.IsInvoke() && cc.Value == v {
		// calling a tainted function value: ignore
	}
	if len(idx) == 0 {
		return
	}
	if t.Model != nil {
		if res, handled := t.Model(ci, idx); handled {
			if res {
				if val := ci.Value(); val != nil {
					t.Add(val, v)
				}
			}
			return
		}
	}
	var targets []*ssa.Function
	if callee := cc.StaticCallee(); callee != nil {
		targets = append(targets, callee)
	} else if mc, ok := cc.Value.(*ssa.MakeClosure); ok {
		targets = append(targets, mc.Fn.(*ssa.Function))
	} else if t.Dyn != nil {
		targets = t.Dyn(ci)
	}
	followed := false
	for _, callee := range targets {
		if !t.inScope(callee) {
			continue
		}
		followed = true
		for _, i := range idx {
			pi := i
			if cc.IsInvoke() {
				// receiver is param 0 of the concrete method
			}
			if pi < len(callee.Params) {
				if pi < len(args)+off && t.deep[argAt(cc, pi)] {
					t.AddDeep(callee.Params[pi], v)
				} else {
					t.Add(callee.Params[pi], v)
				}
			}
		}
		for i, rv := range t.rets[callee] {
			t.addResult(ci, callee.Signature.Results().Len(), i, rv)
		}
	}
	if !followed {
		// sync.Map: a key does not taint the stored values (same rule as for built-in maps)
		if f := CalleeFunc(ci); f != nil && f.Pkg() != nil && f.Pkg().Path() == "sync" {
			if sig, ok := f.Type().(*types.Signature); ok && sig.Recv() != nil && strings.HasSuffix(sig.Recv().Type().String(), "sync.Map") {
				switch f.Name() {
				case "Store", "LoadOrStore", "Swap", "CompareAndSwap":
					if len(args) >= 3 && args[1] == v && args[2] != v && !t.KeysTaintMaps {
						return
					}
				case "Load", "LoadAndDelete", "Delete", "CompareAndDelete":
					if len(args) >= 2 && args[1] == v && args[0] != v && !t.KeysTaintMaps {
						return
					}
				}
			}
		}
		// unknown / external callee: result derives from its arguments
		if val := ci.Value(); val != nil {
			t.Add(val, v)
		}
		if t.ExternalArgs {
			for _, a := range args {
				if a == v || t.vals[a] {
					continue
				}
				// an interface wrapping a pointer (json.Unmarshal(data, &x)): the pointee is written
				if mi, ok := a.(*ssa.MakeInterface); ok {
					if _, isPtr := mi.X.Type().Underlying().(*types.Pointer); isPtr {
						t.taintAddr(mi.X, v)
						t.AddDeep(mi.X, v)
					}
				}
				// a callback handed to the external function (jsonparser.ObjectEach, sort.Slice, ...): it is called
				// with pieces of the data
				var cb *ssa.Function
				switch y := a.(type) {
				case *ssa.MakeClosure:
					cb, _ = y.Fn.(*ssa.Function)
				case *ssa.Function:
					cb = y
				}
				if cb != nil && t.inScope(cb) {
					for _, p := range cb.Params {
						t.Add(p, v)
					}
					continue
				}
				switch a.Type().Underlying().(type) {
				case *types.Pointer:
					t.taintAddr(a, v)
					t.AddDeep(a, v)
				case *types.Slice, *types.Map, *types.Interface:
					t.AddDeep(a, v)
					t.taintAddrOfValue(a, v)
				}
			}
			if cc.IsInvoke() && cc.Value != v {
				t.Add(cc.Value, v)
			}
		}
	}
}

// Values returns all tainted values.
func (t *Taint) Values() map[ssa.Value]bool { return t.vals }

func argAt(cc *ssa.CallCommon, i int) ssa.Value {
	if cc.IsInvoke() {
		if i == 0 {
			return cc.Value
		}
		i--
	}
	if i < len(cc.Args) {
		return cc.Args[i]
	}
	return nil
}

// addResult taints result i of the call at site (the call value itself for
// single-result functions, the matching Extract otherwise).
func (t *Taint) addResult(site ssa.CallInstruction, nres, i int, from ssa.Value) {
	val := site.Value()
	if val == nil {
		return
	}
	if nres <= 1 {
		t.AddDeepIf(val, from)
		return
	}
	if refs := val.Referrers(); refs != nil {
		for _, r := range *refs {
			if ex, ok := r.(*ssa.Extract); ok && ex.Index == i {
				t.AddDeepIf(ex, from)
			}
		}
	}
}

// RunWithMapKeys is Run plus key flow through maps held in fields, globals or locals: when a tainted value
// is used as the KEY of a map update, the keys produced by ranging over the same map carrier (and only the
// keys: neither the map's values nor its lookups) are tainted.  Carriers are resolved by field / global /
// SSA value; maps passed on as parameters are followed through the ordinary value flow of the map value
// only when the map itself is tainted, so this is an under-approximation of key flow, never of value flow.
func (t *Taint) RunWithMapKeys() (keyCarriers int) {
	t.Run()
	type carrier struct {
		f *types.Var
		g *ssa.Global
		v ssa.Value
	}
	carrierOf := func(m ssa.Value) carrier {
		if ld, ok := m.(*ssa.UnOp); ok {
			switch a := ld.X.(type) {
			case *ssa.FieldAddr:
				return carrier{f: fieldOfAddr(a)}
			case *ssa.Global:
				return carrier{g: a}
			}
		}
		return carrier{v: m}
	}
	type upd struct {
		mu *ssa.MapUpdate
		c  carrier
	}
	var updates []upd
	ranges := map[carrier][]*ssa.Range{}
	for _, fn := range t.C.RepoFunctions() {
		if !t.inScope(fn) {
			continue
		}
		for _, b := range fn.Blocks {
			for _, in := range b.Instrs {
				switch x := in.(type) {
				case *ssa.MapUpdate:
					updates = append(updates, upd{x, carrierOf(x.Map)})
				case *ssa.Range:
					if _, isMap := x.X.Type().Underlying().(*types.Map); isMap {
						c := carrierOf(x.X)
						ranges[c] = append(ranges[c], x)
					}
				}
			}
		}
	}
	done := map[carrier]bool{}
	for changed := true; changed; {
		changed = false
		for _, u := range updates {
			if done[u.c] || !t.vals[u.mu.Key] {
				continue
			}
			if t.Block != nil && t.Block(u.mu.Key, u.mu) {
				continue
			}
			done[u.c] = true
			keyCarriers++
			for _, rg := range ranges[u.c] {
				if refs := rg.Referrers(); refs != nil {
					for _, nx := range *refs {
						next, ok := nx.(*ssa.Next)
						if !ok || next.Referrers() == nil {
							continue
						}
						for _, ex := range *next.Referrers() {
							if e, ok := ex.(*ssa.Extract); ok && e.Index == 1 {
								t.Add(e, u.mu.Key)
								changed = true
							}
						}
					}
				}
			}
		}
		if changed {
			t.Run()
		}
	}
	return keyCarriers
}
