package core

import (
	"fmt"
	"go/types"
	"strings"

	"golang.org/x/tools/go/ssa"
)

// AnchorError is raised (by panic) when a named anchor no longer resolves; the
// driver turns it into a "checker-cannot-decide" failure of the property.
type AnchorError struct{ What string }

func (e AnchorError) Error() string { return "unresolved anchor: " + e.What }

// Obj resolves a package-level object "Name" or a method/field "Type.Name" in
// the module-relative package rel.  It panics with AnchorError if absent.
func (c *Ctx) Obj(rel, name string) types.Object {
	o := c.TryObj(rel, name)
	if o == nil {
		panic(AnchorError{rel + "." + name})
	}
	return o
}

// TryObj is Obj without the panic.
func (c *Ctx) TryObj(rel, name string) types.Object {
	if o := c.lookupObj(rel, name); o != nil {
		return o
	}
	// absent under this name: a pure rename is followed (renames.go)
	return c.renamed(rel, name)
}

func (c *Ctx) lookupObj(rel, name string) types.Object {
	p := c.Pkg(rel)
	if p == nil {
		return nil
	}
	if i := strings.Index(name, "."); i >= 0 {
		tn, mn := name[:i], name[i+1:]
		to := p.Types.Scope().Lookup(tn)
		if to == nil {
			return nil
		}
		o, _, _ := types.LookupFieldOrMethod(types.NewPointer(to.Type()), true, p.Types, mn)
		return o
	}
	return p.Types.Scope().Lookup(name)
}

// Fn resolves a function "Name" or method "Type.Name" to its SSA function.
func (c *Ctx) Fn(rel, name string) *ssa.Function {
	f := c.TryFn(rel, name)
	if f == nil {
		panic(AnchorError{rel + "." + name + " (function)"})
	}
	return f
}

// TryFn is Fn without the panic.
func (c *Ctx) TryFn(rel, name string) *ssa.Function {
	o := c.TryObj(rel, name)
	fo, ok := o.(*types.Func)
	if !ok {
		return nil
	}
	f := c.Prog.FuncValue(fo)
	if f == nil || f.Blocks == nil {
		return nil
	}
	return f
}

// ExtFn resolves a function or method of a non-repository package
// (full import path), e.g. ("os", "OpenFile"), ("sync", "Mutex.Lock").
func (c *Ctx) ExtObj(path, name string) types.Object {
	p := c.ByPath[path]
	if p == nil {
		panic(AnchorError{path + "." + name})
	}
	var o types.Object
	if i := strings.Index(name, "."); i >= 0 {
		to := p.Types.Scope().Lookup(name[:i])
		if to != nil {
			o, _, _ = types.LookupFieldOrMethod(types.NewPointer(to.Type()), true, p.Types, name[i+1:])
		}
	} else {
		o = p.Types.Scope().Lookup(name)
	}
	if o == nil {
		panic(AnchorError{path + "." + name})
	}
	return o
}

// Global resolves a package-level variable to its SSA global.
func (c *Ctx) Global(rel, name string) *ssa.Global {
	sp := c.SSAPkg(rel)
	if sp == nil {
		panic(AnchorError{rel + "." + name + " (global)"})
	}
	g, ok := sp.Members[name].(*ssa.Global)
	if !ok {
		if o := c.renamed(rel, name); o != nil {
			if g2, ok := sp.Members[o.Name()].(*ssa.Global); ok {
				return g2
			}
		}
		panic(AnchorError{rel + "." + name + " (global)"})
	}
	return g
}

// Field resolves the *types.Var of struct field "Type.Field" in package rel.
func (c *Ctx) Field(rel, name string) *types.Var {
	o := c.Obj(rel, name)
	v, ok := o.(*types.Var)
	if !ok || !v.IsField() {
		panic(AnchorError{rel + "." + name + " (field)"})
	}
	return v
}

// NamedType resolves a named type.
func (c *Ctx) NamedType(rel, name string) *types.Named {
	o := c.Obj(rel, name)
	n, ok := o.Type().(*types.Named)
	if !ok {
		panic(AnchorError{rel + "." + name + " (type)"})
	}
	return n
}

// ConstVal returns the exact integer value of a package-level constant.
func (c *Ctx) ConstVal(rel, name string) int64 {
	o := c.Obj(rel, name)
	k, ok := o.(*types.Const)
	if !ok {
		panic(AnchorError{rel + "." + name + " (const)"})
	}
	v, ok := constInt(k)
	if !ok {
		panic(AnchorError{rel + "." + name + " (int const)"})
	}
	return v
}

// FnName renders a function compactly: pkgname.(*T).M / pkgname.F / parent$1.
func FnName(fn *ssa.Function) string {
	if fn == nil {
		return "<nil>"
	}
	s := fn.String()
	s = strings.ReplaceAll(s, ModPath+"/", "")
	return s
}

// CalleeName renders a types.Func as pkg.(T).M
func ObjName(o types.Object) string {
	if o == nil {
		return "<nil>"
	}
	if f, ok := o.(*types.Func); ok {
		return strings.ReplaceAll(f.FullName(), ModPath+"/", "")
	}
	if o.Pkg() != nil {
		return strings.ReplaceAll(o.Pkg().Path(), ModPath+"/", "") + "." + o.Name()
	}
	return o.Name()
}

func mustf(format string, a ...interface{}) { panic(AnchorError{fmt.Sprintf(format, a...)}) }
