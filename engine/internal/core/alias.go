package core

import (
	"go/types"
	"strings"

	"golang.org/x/tools/go/ssa"
)

// Alias is a forward, interprocedural, field-based may-alias flow for byte slices: it answers "may this
// []byte value share its backing array with a source buffer?".  Unlike Taint it follows only operations
// that keep the backing array (re-slicing, phi, parameter passing, returns, stores into and loads from
// fields / containers, jsonparser and bytes functions that return sub-slices of their input) and stops at
// every operation that copies the bytes (conversion to string, copy, append of the bytes to another slice,
// bytes.Replace / Clone / Join / ToLower ...).
type Alias struct {
	C *Ctx
	// Scope limits the functions analysed.
	Scope func(fn *ssa.Function) bool
	// AnyType follows slices of every element type (default: only values that can hold a byte slice).
	AnyType bool

	vals    map[ssa.Value]ssa.Value // value -> provenance
	car     map[ssa.Value]bool      // the value is a container that HOLDS an alias (slice of items, map), not the alias itself
	carF    map[*types.Var]bool
	fields  map[*types.Var]ssa.Value
	rets    map[*ssa.Function]map[int]ssa.Value
	work    []ssa.Value
	loads   map[*types.Var][]ssa.Value
	callers map[*ssa.Function][]ssa.CallInstruction
	inited  bool
}

func (a *Alias) init() {
	if a.inited {
		return
	}
	a.inited = true
	a.vals = map[ssa.Value]ssa.Value{}
	a.car = map[ssa.Value]bool{}
	a.carF = map[*types.Var]bool{}
	a.fields = map[*types.Var]ssa.Value{}
	a.rets = map[*ssa.Function]map[int]ssa.Value{}
	a.loads = map[*types.Var][]ssa.Value{}
	a.callers = a.C.StaticCallers()
	for _, fn := range a.C.RepoFunctions() {
		if a.Scope != nil && !a.Scope(fn) {
			continue
		}
		for _, b := range fn.Blocks {
			for _, in := range b.Instrs {
				if fa, ok := in.(*ssa.FieldAddr); ok {
					if f := fieldOfAddr(fa); f != nil {
						a.loads[f] = append(a.loads[f], fa)
					}
				}
			}
		}
	}
}

// holdsBytes: the type is, or contains (slice/map/pointer/array/interface of), a byte slice.
func holdsBytes(t types.Type, depth int) bool {
	if depth > 4 {
		return false
	}
	switch x := t.Underlying().(type) {
	case *types.Slice:
		if b, ok := x.Elem().Underlying().(*types.Basic); ok && b.Kind() == types.Byte {
			return true
		}
		return holdsBytes(x.Elem(), depth+1)
	case *types.Array:
		return holdsBytes(x.Elem(), depth+1)
	case *types.Map:
		return holdsBytes(x.Elem(), depth+1) || holdsBytes(x.Key(), depth+1)
	case *types.Pointer:
		return holdsBytes(x.Elem(), depth+1)
	case *types.Interface:
		return true
	case *types.Tuple:
		for i := 0; i < x.Len(); i++ {
			if holdsBytes(x.At(i).Type(), depth+1) {
				return true
			}
		}
	}
	return false
}

// Add marks v as possibly aliasing the source.
func (a *Alias) Add(v, from ssa.Value) {
	a.init()
	if v == nil {
		return
	}
	if _, ok := a.vals[v]; ok {
		return
	}
	if _, isConst := v.(*ssa.Const); isConst {
		return
	}
	if !a.AnyType && !holdsBytes(v.Type(), 0) {
		return
	}
	a.vals[v] = from
	a.work = append(a.work, v)
}

// addCarrier marks v as a container holding an alias.
func (a *Alias) addCarrier(v, from ssa.Value) {
	a.init()
	if v == nil {
		return
	}
	if _, ok := a.vals[v]; ok {
		return
	}
	if _, isConst := v.(*ssa.Const); isConst {
		return
	}
	a.vals[v] = from
	a.car[v] = true
	a.work = append(a.work, v)
}

// addLike adds v with the kind (alias / container) of src.
func (a *Alias) addLike(v, src ssa.Value) {
	if a.car[src] {
		a.addCarrier(v, src)
	} else {
		a.Add(v, src)
	}
}

func (a *Alias) addField(f *types.Var, from ssa.Value) {
	if f == nil {
		return
	}
	carrier := a.car[from]
	if prev, ok := a.fields[f]; ok {
		_ = prev
		if a.carF[f] && !carrier {
			// the field may now hold the alias itself as well: upgrade its loads
			a.carF[f] = false
			for _, l := range a.loads[f] {
				if a.car[l] {
					delete(a.car, l)
					a.work = append(a.work, l)
				}
			}
		}
		return
	}
	a.fields[f] = from
	a.carF[f] = carrier
	for _, l := range a.loads[f] {
		if carrier {
			a.addCarrier(l, from)
		} else {
			a.Add(l, from)
		}
	}
}

// Has reports whether v may alias the source.
func (a *Alias) Has(v ssa.Value) bool { _, ok := a.vals[v]; return ok && !a.car[v] }

// Holds reports whether v is a container that may hold an alias of the source.
func (a *Alias) Holds(v ssa.Value) bool { _, ok := a.vals[v]; return ok && a.car[v] }

// Path reconstructs the provenance chain of v (source first).
func (a *Alias) Path(v ssa.Value) []ssa.Value {
	var out []ssa.Value
	seen := map[ssa.Value]bool{}
	for v != nil && !seen[v] {
		seen[v] = true
		out = append(out, v)
		v = a.vals[v]
	}
	for i, j := 0, len(out)-1; i < j; i, j = i+1, j-1 {
		out[i], out[j] = out[j], out[i]
	}
	return out
}

func (a *Alias) inScope(fn *ssa.Function) bool {
	if fn == nil || fn.Blocks == nil || !IsRepoPkg(FnPkgPath(fn)) {
		return false
	}
	return a.Scope == nil || a.Scope(fn)
}

// Run propagates to a fixed point.
func (a *Alias) Run() {
	a.init()
	for len(a.work) > 0 {
		v := a.work[len(a.work)-1]
		a.work = a.work[:len(a.work)-1]
		a.step(v)
	}
}

// subSliceFunc: external functions whose []byte result (or callback arguments) are sub-slices of the
// []byte argument at the returned index; -1 = not such a function.
func subSliceFunc(f *types.Func) int {
	if f == nil || f.Pkg() == nil {
		return -1
	}
	switch f.Pkg().Path() {
	case "github.com/buger/jsonparser":
		switch f.Name() {
		case "Get", "ArrayEach", "ObjectEach", "EachKey":
			return 0
		}
	case "bytes":
		switch f.Name() {
		case "TrimSpace", "Trim", "TrimLeft", "TrimRight", "TrimPrefix", "TrimSuffix", "TrimFunc", "Fields", "Split", "SplitN", "SplitAfter", "Cut", "CutPrefix", "CutSuffix":
			return 0
		}
	}
	return -1
}

func (a *Alias) storeTo(addr ssa.Value, from ssa.Value) {
	switch x := addr.(type) {
	case *ssa.FieldAddr:
		a.addField(fieldOfAddr(x), from)
	case *ssa.IndexAddr:
		// element of a slice/array: the container now holds the alias
		a.addCarrier(x.X, from)
		a.carrierBack(x.X, from)
	default:
		// a local, a global or a pointer: the storage holds what was stored (alias or container)
		a.addLike(addr, from)
	}
}

// carrierBack: a container value (slice/map) got an aliasing element; if the container was loaded from a
// field or local, that storage holds a container too.
func (a *Alias) carrierBack(cv ssa.Value, from ssa.Value) {
	switch x := cv.(type) {
	case *ssa.UnOp:
		switch ad := x.X.(type) {
		case *ssa.FieldAddr:
			f := fieldOfAddr(ad)
			if f != nil {
				if _, ok := a.fields[f]; !ok {
					a.fields[f] = from
					a.carF[f] = true
					for _, l := range a.loads[f] {
						a.addCarrier(l, from)
					}
				}
			}
		default:
			a.addCarrier(x.X, from)
		}
	case *ssa.Phi:
		for _, e := range x.Edges {
			a.addCarrier(e, from)
		}
	case *ssa.Slice:
		a.addCarrier(x.X, from)
		a.carrierBack(x.X, from)
	}
}

func (a *Alias) step(v ssa.Value) {
	refs := v.Referrers()
	if refs == nil {
		return
	}
	carrier := a.car[v]
	for _, in := range *refs {
		if !a.inScope(in.Parent()) {
			continue
		}
		switch x := in.(type) {
		case *ssa.Slice:
			if x.X == v {
				a.addLike(x, v)
			}
		case *ssa.Phi, *ssa.ChangeType, *ssa.MakeInterface, *ssa.TypeAssert, *ssa.ChangeInterface:
			a.addLike(x.(ssa.Value), v)
		case *ssa.Extract:
			if carrier {
				// (ok, key, value) of a range step over a container: the value is an element
				if _, isNext := x.Tuple.(*ssa.Next); isNext {
					if x.Index == 2 {
						a.Add(x, v)
					}
					continue
				}
			}
			a.addLike(x, v)
		case *ssa.UnOp:
			// load through an address whose content is v's kind
			a.addLike(x, v)
		case *ssa.FieldAddr:
			// field of an aliasing struct pointer is not itself an alias (field-based flow handles fields)
		case *ssa.IndexAddr:
			if x.X == v {
				// the address of an element: what it holds is an element of the container (the alias), or a piece of the aliased buffer
				a.Add(x, v)
			}
		case *ssa.Index:
			if x.X == v {
				a.Add(x, v)
			}
		case *ssa.Lookup:
			if x.X == v {
				a.Add(x, v)
			}
		case *ssa.Range:
			a.addLike(x, v)
		case *ssa.Next:
			a.addLike(x, v)
		case *ssa.Store:
			if x.Val == v {
				a.storeTo(x.Addr, v)
			}
		case *ssa.MapUpdate:
			if x.Value == v {
				a.addCarrier(x.Map, v)
				a.carrierBack(x.Map, v)
			}
		case *ssa.MakeClosure:
			fn := x.Fn.(*ssa.Function)
			for i, b := range x.Bindings {
				if b == v && i < len(fn.FreeVars) {
					a.addLike(fn.FreeVars[i], v)
				}
			}
		case *ssa.Return:
			fn := x.Parent()
			for i, res := range x.Results {
				if res != v {
					continue
				}
				if a.rets[fn] == nil {
					a.rets[fn] = map[int]ssa.Value{}
				}
				if _, ok := a.rets[fn][i]; ok {
					continue
				}
				a.rets[fn][i] = v
				for _, site := range a.callers[fn] {
					a.addResult(site, len(x.Results), i, v)
				}
			}
		case ssa.CallInstruction:
			a.call(x, v)
		}
	}
}

func (a *Alias) addResult(site ssa.CallInstruction, nres, i int, from ssa.Value) {
	val := site.Value()
	if val == nil {
		return
	}
	if nres == 1 {
		a.addLike(val, from)
		return
	}
	if refs := val.Referrers(); refs != nil {
		for _, rf := range *refs {
			if ex, ok := rf.(*ssa.Extract); ok && ex.Index == i {
				a.addLike(ex, from)
			}
		}
	}
}

func (a *Alias) call(ci ssa.CallInstruction, v ssa.Value) {
	cc := ci.Common()
	// builtins
	if bi, ok := cc.Value.(*ssa.Builtin); ok {
		switch bi.Name() {
		case "append":
			// the result may share the array of the FIRST argument only; appended bytes are copied
			if len(cc.Args) > 0 && cc.Args[0] == v {
				if val := ci.Value(); val != nil {
					a.Add(val, v)
				}
			}
			// append(listOfSlices, v): an element, not bytes, is appended -> the list carries the alias
			if len(cc.Args) == 2 && cc.Args[1] == v {
				if st, ok := cc.Args[0].Type().Underlying().(*types.Slice); ok {
					if _, inner := st.Elem().Underlying().(*types.Slice); inner {
						if val := ci.Value(); val != nil {
							a.Add(val, v)
						}
					}
				}
			}
		}
		return
	}
	f := CalleeFunc(ci)
	if idx := subSliceFunc(f); idx >= 0 && idx < len(cc.Args) && cc.Args[idx] == v {
		// result #0 (when it is a byte slice) and the []byte parameters of callback arguments
		if call := ci.Value(); call != nil {
			val := ssa.Value(call)
			{
				res := call.Call.Signature().Results()
				if res.Len() == 1 {
					a.Add(val, v)
				} else {
					a.addResult(ci, res.Len(), 0, v)
					if strings.HasPrefix(f.Name(), "Cut") {
						a.addResult(ci, res.Len(), 1, v)
					}
				}
			}
		}
		for _, arg := range cc.Args {
			var cb *ssa.Function
			switch y := arg.(type) {
			case *ssa.MakeClosure:
				cb = y.Fn.(*ssa.Function)
			case *ssa.Function:
				cb = y
			}
			if cb != nil && a.inScope(cb) {
				for _, p := range cb.Params {
					a.Add(p, v)
				}
			}
		}
		return
	}
	var targets []*ssa.Function
	if callee := cc.StaticCallee(); callee != nil {
		targets = append(targets, callee)
	} else if mc, ok := cc.Value.(*ssa.MakeClosure); ok {
		targets = append(targets, mc.Fn.(*ssa.Function))
	}
	off := 0
	for _, callee := range targets {
		if !a.inScope(callee) {
			continue
		}
		for i, arg := range cc.Args {
			if arg == v && i+off < len(callee.Params) {
				a.Add(callee.Params[i+off], v)
			}
		}
		for i, rv := range a.rets[callee] {
			a.addResult(ci, callee.Signature.Results().Len(), i, rv)
		}
	}
	// unknown external callee: assume it copies (bytes.Replace, string conversions, hashing, ...)
}

// AddAny is Add for an analysis over slices of any element type.
func (a *Alias) AddAny(v, from ssa.Value) {
	a.AnyType = true
	a.Add(v, from)
}
