package core

import (
	"go/constant"
	"go/token"
	"go/types"
	"golang.org/x/tools/go/ssa/ssautil"
	"sync"

	"golang.org/x/tools/go/ssa"
)

func constInt(k *types.Const) (int64, bool) {
	v := constant.ToInt(k.Val())
	if v.Kind() != constant.Int {
		return 0, false
	}
	return constant.Int64Val(v)
}

// CallsIn returns every call-like instruction (call, go, defer) of fn in
// block/instruction order.
func CallsIn(fn *ssa.Function) []ssa.CallInstruction {
	var out []ssa.CallInstruction
	for _, b := range fn.Blocks {
		for _, in := range b.Instrs {
			if ci, ok := in.(ssa.CallInstruction); ok {
				out = append(out, ci)
			}
		}
	}
	return out
}

// CalleeFunc returns the *types.Func a call statically names: the static
// callee's object, or the interface method for invoke-mode calls.  nil for
// calls of function values.
func CalleeFunc(ci ssa.CallInstruction) *types.Func {
	cc := ci.Common()
	if cc.IsInvoke() {
		return cc.Method
	}
	if f := cc.StaticCallee(); f != nil {
		if o, ok := f.Object().(*types.Func); ok {
			return o
		}
		if org := f.Origin(); org != nil {
			if o, ok := org.Object().(*types.Func); ok {
				return o
			}
		}
	}
	return nil
}

// StaticCallee returns the SSA function called, resolving generic
// instantiations to their origin; nil when dynamic.
func StaticCallee(ci ssa.CallInstruction) *ssa.Function {
	f := ci.Common().StaticCallee()
	if f == nil {
		return nil
	}
	return f
}

// IsCallTo reports whether ci statically calls the function object o.
func IsCallTo(ci ssa.CallInstruction, o types.Object) bool {
	f := CalleeFunc(ci)
	if f == nil || o == nil {
		return false
	}
	if f == o {
		return true
	}
	if of, ok := o.(*types.Func); ok {
		return f.Origin() == of.Origin()
	}
	return false
}

// IdxIn returns the index of in inside its block.
func IdxIn(in ssa.Instruction) int {
	for i, x := range in.Block().Instrs {
		if x == in {
			return i
		}
	}
	return -1
}

// InstrDominates reports whether a is executed before b on every path to b.
func InstrDominates(a, b ssa.Instruction) bool {
	if a.Block() == b.Block() {
		return IdxIn(a) < IdxIn(b)
	}
	return a.Block().Dominates(b.Block())
}

// WalkForward explores fn's instructions forward.  It starts after `from`
// (or at the function entry when from is nil).  visit is called once per
// reached instruction; returning false stops the exploration along that path
// (the instruction is a barrier).
func WalkForward(fn *ssa.Function, from ssa.Instruction, visit func(ssa.Instruction) bool) {
	WalkForwardEdges(fn, from, visit, nil)
}

// WalkForwardEdges is WalkForward restricted to CFG edges accepted by edgeOK.
func WalkForwardEdges(fn *ssa.Function, from ssa.Instruction, visit func(ssa.Instruction) bool, edgeOK func(from, to *ssa.BasicBlock) bool) {
	if len(fn.Blocks) == 0 {
		return
	}
	seen := map[*ssa.BasicBlock]bool{}
	type item struct {
		b *ssa.BasicBlock
		i int
	}
	var work []item
	if from == nil {
		work = append(work, item{fn.Blocks[0], 0})
		seen[fn.Blocks[0]] = true
	} else {
		work = append(work, item{from.Block(), IdxIn(from) + 1})
	}
	for len(work) > 0 {
		it := work[len(work)-1]
		work = work[:len(work)-1]
		stopped := false
		for i := it.i; i < len(it.b.Instrs); i++ {
			if !visit(it.b.Instrs[i]) {
				stopped = true
				break
			}
		}
		if stopped {
			continue
		}
		for _, s := range it.b.Succs {
			if edgeOK != nil && !edgeOK(it.b, s) {
				continue
			}
			if !seen[s] {
				seen[s] = true
				work = append(work, item{s, 0})
			}
		}
	}
}

// ErrResultIndex returns the index of fn's last result if it has type error,
// else -1.
func ErrResultIndex(fn *ssa.Function) int {
	res := fn.Signature.Results()
	if res.Len() == 0 {
		return -1
	}
	last := res.At(res.Len() - 1).Type()
	if types.Identical(last, types.Universe.Lookup("error").Type()) {
		return res.Len() - 1
	}
	return -1
}

// IsNilConst reports whether v is the nil constant.
func IsNilConst(v ssa.Value) bool {
	k, ok := v.(*ssa.Const)
	return ok && k.Value == nil
}

// Tri is a three-valued verdict.
type Tri int

const (
	No Tri = iota
	Yes
	Maybe
)

// ReturnSuccess classifies a return of a function whose last result is an
// error: Yes = returns nil error, No = returns a provably non-nil error,
// Maybe = cannot tell.  Functions without an error result always succeed.
func ReturnSuccess(ret *ssa.Return) Tri {
	fn := ret.Parent()
	idx := ErrResultIndex(fn)
	if idx < 0 {
		return Yes
	}
	return errValueNil(RetResult(ret, idx), ret.Block(), map[ssa.Value]bool{})
}

// RetResult returns the i-th result of a return, looking through the spill
// slots go/ssa introduces for functions with defers (results are stored to
// locals, rundefers runs, and the locals are re-loaded).
func RetResult(ret *ssa.Return, i int) ssa.Value {
	return ResolveSpill(ret.Results[i])
}

// ResolveSpill: if v is a load of a local whose last store in the same block
// (before the load) is known, return the stored value.
func ResolveSpill(v ssa.Value) ssa.Value {
	ld, ok := v.(*ssa.UnOp)
	if !ok || ld.Op != token.MUL {
		return v
	}
	al, ok := ld.X.(*ssa.Alloc)
	if !ok {
		return v
	}
	b := ld.Block()
	idx := IdxIn(ld)
	for {
		for i := idx - 1; i >= 0; i-- {
			if st, ok := b.Instrs[i].(*ssa.Store); ok && st.Addr == ssa.Value(al) {
				return st.Val
			}
			if c, ok := b.Instrs[i].(ssa.CallInstruction); ok {
				// the address may escape to a call only if it is an argument
				for _, a := range c.Common().Args {
					if a == ssa.Value(al) {
						return v
					}
				}
			}
		}
		if len(b.Preds) != 1 {
			return v
		}
		b = b.Preds[0]
		idx = len(b.Instrs)
	}
}

func errValueNil(v ssa.Value, at *ssa.BasicBlock, seen map[ssa.Value]bool) Tri {
	if seen[v] {
		return Maybe
	}
	seen[v] = true
	switch x := v.(type) {
	case *ssa.Const:
		if x.Value == nil {
			return Yes
		}
		return No
	case *ssa.MakeInterface:
		return No
	case *ssa.UnOp:
		// a sentinel error: a package-level variable assigned once, in the package initialiser, from
		// errors.New / fmt.Errorf (`var ErrNotFound = errors.New(..)`)
		if g, ok := x.X.(*ssa.Global); ok && x.Op == token.MUL && isSentinelError(g) {
			return No
		}
	case *ssa.Call:
		if f := CalleeFunc(x); f != nil && f.Pkg() != nil {
			switch f.Pkg().Path() + "." + f.Name() {
			case "errors.New", "fmt.Errorf", "github.com/siglens/siglens/pkg/utils.TeeErrorf",
				"github.com/siglens/siglens/pkg/utils.NewErrorWithCode",
				"github.com/siglens/siglens/pkg/utils.WrapErrorf":
				return No
			}
		}
		// a helper that hands back one of its parameters as its error (cleanup-and-return closures)
		var callee *ssa.Function
		switch cv := x.Call.Value.(type) {
		case *ssa.Function:
			callee = cv
		case *ssa.MakeClosure:
			callee, _ = cv.Fn.(*ssa.Function)
		}
		if callee != nil && callee.Blocks != nil && !x.Call.IsInvoke() {
			if idx := ErrResultIndex(callee); idx >= 0 {
				pi := -1
				for _, ret := range Returns(callee) {
					p, ok := ret.Results[idx].(*ssa.Parameter)
					k := -1
					if ok {
						for i, q := range callee.Params {
							if q == p {
								k = i
							}
						}
					}
					if k < 0 || (pi >= 0 && pi != k) {
						pi = -2
						break
					}
					pi = k
				}
				if pi >= 0 && pi < len(x.Call.Args) {
					return errValueNil(x.Call.Args[pi], x.Block(), seen)
				}
			}
		}
	case *ssa.Phi:
		res := Tri(-1)
		for _, e := range x.Edges {
			r := errValueNil(e, at, seen)
			if res == -1 {
				res = r
			} else if res != r {
				return Maybe
			}
		}
		if res == -1 {
			return Maybe
		}
		return res
	}
	// refined by a dominating test of v against nil?
	if r := NilnessAt(v, at); r != Maybe {
		if r == Yes {
			return Yes // v == nil here
		}
		return No
	}
	return Maybe
}

// NilnessAt: Yes if v is known nil in block at (dominated by the equal edge
// of v == nil), No if known non-nil, Maybe otherwise.
func NilnessAt(v ssa.Value, at *ssa.BasicBlock) Tri {
	for b := at; b != nil; b = b.Idom() {
		idom := b.Idom()
		if idom == nil {
			break
		}
		ifi, ok := lastIf(idom)
		if !ok {
			continue
		}
		bo, ok := ifi.Cond.(*ssa.BinOp)
		if !ok || (bo.Op != token.EQL && bo.Op != token.NEQ) {
			continue
		}
		var other ssa.Value
		if bo.X == v {
			other = bo.Y
		} else if bo.Y == v {
			other = bo.X
		} else {
			continue
		}
		if !IsNilConst(other) {
			continue
		}
		tsucc, fsucc := idom.Succs[0], idom.Succs[1]
		onTrue := b == tsucc && len(tsucc.Preds) == 1
		onFalse := b == fsucc && len(fsucc.Preds) == 1
		if onTrue == onFalse {
			continue
		}
		isNil := (bo.Op == token.EQL) == onTrue
		if isNil {
			return Yes
		}
		return No
	}
	return Maybe
}

func lastIf(b *ssa.BasicBlock) (*ssa.If, bool) {
	if len(b.Instrs) == 0 {
		return nil, false
	}
	i, ok := b.Instrs[len(b.Instrs)-1].(*ssa.If)
	return i, ok
}

// LastIf exposes lastIf.
func LastIf(b *ssa.BasicBlock) (*ssa.If, bool) { return lastIf(b) }

// Returns lists the return instructions of fn.
func Returns(fn *ssa.Function) []*ssa.Return {
	var out []*ssa.Return
	for _, b := range fn.Blocks {
		if len(b.Instrs) == 0 || b == fn.Recover {
			continue // the recover block is entered only after a recovered panic
		}
		if r, ok := b.Instrs[len(b.Instrs)-1].(*ssa.Return); ok {
			out = append(out, r)
		}
	}
	return out
}

// EdgeDominates reports whether the edge from->to (to must have from as its
// only predecessor, otherwise a synthetic check is used) dominates block b:
// every path to b goes through that edge.
func EdgeDominates(from, to, b *ssa.BasicBlock) bool {
	if len(to.Preds) == 1 {
		return to.Dominates(b)
	}
	// to has several predecessors: the edge dominates b only if to dominates b
	// and every other predecessor of `to` is itself dominated by `to`
	// (back edges) — conservative: say no.
	return false
}

// Unop strips ChangeType / ChangeInterface / Convert wrappers.
func Unwrap(v ssa.Value) ssa.Value {
	for {
		switch x := v.(type) {
		case *ssa.ChangeType:
			v = x.X
		case *ssa.ChangeInterface:
			v = x.X
		case *ssa.Convert:
			v = x.X
		case *ssa.MakeInterface:
			v = x.X
		default:
			return v
		}
	}
}

// ConstIntValue returns the integer value of an SSA constant (through
// conversions).
func ConstIntValue(v ssa.Value) (int64, bool) {
	v = Unwrap(v)
	k, ok := v.(*ssa.Const)
	if !ok || k.Value == nil {
		return 0, false
	}
	iv := constant.ToInt(k.Value)
	if iv.Kind() != constant.Int {
		return 0, false
	}
	return constant.Int64Val(iv)
}

// ConstStringValue returns the string value of an SSA constant.
func ConstStringValue(v ssa.Value) (string, bool) {
	k, ok := v.(*ssa.Const)
	if !ok || k.Value == nil || k.Value.Kind() != constant.String {
		return "", false
	}
	return constant.StringVal(k.Value), true
}

// Closures returns the anonymous functions created (MakeClosure or direct
// function constants) inside fn, recursively.
func Closures(fn *ssa.Function) []*ssa.Function {
	var out []*ssa.Function
	var rec func(f *ssa.Function)
	rec = func(f *ssa.Function) {
		for _, a := range f.AnonFuncs {
			out = append(out, a)
			rec(a)
		}
	}
	rec(fn)
	return out
}

// Loop is a natural loop of a function's CFG.
type Loop struct {
	Header *ssa.BasicBlock
	Body   map[*ssa.BasicBlock]bool // includes the header
}

// Loops computes the natural loops of fn (one per header, back edges merged).
func Loops(fn *ssa.Function) []*Loop {
	byHeader := map[*ssa.BasicBlock]*Loop{}
	var order []*ssa.BasicBlock
	for _, u := range fn.Blocks {
		for _, h := range u.Succs {
			if !h.Dominates(u) {
				continue
			}
			l := byHeader[h]
			if l == nil {
				l = &Loop{Header: h, Body: map[*ssa.BasicBlock]bool{h: true}}
				byHeader[h] = l
				order = append(order, h)
			}
			// nodes that reach u without passing h
			stack := []*ssa.BasicBlock{u}
			for len(stack) > 0 {
				x := stack[len(stack)-1]
				stack = stack[:len(stack)-1]
				if l.Body[x] {
					continue
				}
				l.Body[x] = true
				stack = append(stack, x.Preds...)
			}
		}
	}
	var out []*Loop
	for _, h := range order {
		out = append(out, byHeader[h])
	}
	return out
}

// InnermostLoop returns the smallest loop containing b (nil if none).
func InnermostLoop(loops []*Loop, b *ssa.BasicBlock) *Loop {
	var best *Loop
	for _, l := range loops {
		if l.Body[b] && (best == nil || len(l.Body) < len(best.Body)) {
			best = l
		}
	}
	return best
}

// ExitEdges returns the (from, to) edges leaving the loop, and the blocks of
// the loop that end in a return.
func (l *Loop) ExitEdges() (edges [][2]*ssa.BasicBlock) {
	for b := range l.Body {
		for _, s := range b.Succs {
			if !l.Body[s] {
				edges = append(edges, [2]*ssa.BasicBlock{b, s})
			}
		}
		if len(b.Succs) == 0 {
			edges = append(edges, [2]*ssa.BasicBlock{b, nil})
		}
	}
	return
}

// BoolKnownAt: Yes if boolean value v is known true in block at (dominated by
// the true edge of `if v` or the false edge of `if !v`), No if known false.
// The branch condition may also be a value built from v: a negation, a comparison
// with a boolean constant (the form go/ssa gives the cases of a tagless switch:
// `true == cond`), or the phi of a short-circuit `v && w` / `v || w` evaluated as
// a value — that phi being true means it was not fed by the constant false, so
// the block evaluating w ran, and that block is reached only where v held.
func BoolKnownAt(v ssa.Value, at *ssa.BasicBlock) Tri {
	return boolKnownAt(v, at, 0)
}

func boolKnownAt(v ssa.Value, at *ssa.BasicBlock, depth int) Tri {
	if depth > 4 {
		return Maybe
	}
	for b := at; b != nil; b = b.Idom() {
		idom := b.Idom()
		if idom == nil {
			break
		}
		ifi, ok := lastIf(idom)
		if !ok {
			continue
		}
		onTrue := idom.Succs[0] == b && len(b.Preds) == 1
		onFalse := idom.Succs[1] == b && len(b.Preds) == 1
		if onTrue == onFalse {
			continue
		}
		if t := boolImplies(ifi.Cond, onTrue, v, depth); t != Maybe {
			return t
		}
	}
	return Maybe
}

// boolImplies: what the fact `cond == truth` says about v.
func boolImplies(cond ssa.Value, truth bool, v ssa.Value, depth int) Tri {
	if cond == v {
		if truth {
			return Yes
		}
		return No
	}
	if depth > 4 {
		return Maybe
	}
	constBool := func(x ssa.Value) (bool, bool) {
		k, ok := x.(*ssa.Const)
		if !ok || k.Value == nil {
			return false, false
		}
		if bt, ok := k.Type().Underlying().(*types.Basic); !ok || bt.Info()&types.IsBoolean == 0 {
			return false, false
		}
		return k.Value.String() == "true", true
	}
	switch c := cond.(type) {
	case *ssa.UnOp:
		if c.Op == token.NOT {
			return boolImplies(c.X, !truth, v, depth+1)
		}
	case *ssa.BinOp:
		if c.Op != token.EQL && c.Op != token.NEQ {
			return Maybe
		}
		other := c.X
		k, isK := constBool(c.Y)
		if !isK {
			other = c.Y
			k, isK = constBool(c.X)
		}
		if !isK {
			return Maybe
		}
		// (other == k) is truth  =>  other is k when truth, !k otherwise; reversed for !=
		val := k == truth
		if c.Op == token.NEQ {
			val = !val
		}
		return boolImplies(other, val, v, depth+1)
	case *ssa.Phi:
		// the edges that can have produced `truth`
		idx := -1
		for i, e := range c.Edges {
			if k, isK := constBool(e); isK && k != truth {
				continue
			}
			if idx >= 0 {
				return Maybe
			}
			idx = i
		}
		if idx < 0 {
			return Maybe
		}
		if _, isK := constBool(c.Edges[idx]); !isK {
			if t := boolImplies(c.Edges[idx], truth, v, depth+1); t != Maybe {
				return t
			}
		}
		return boolKnownAt(v, c.Block().Preds[idx], depth+1)
	}
	return Maybe
}

// UnknownConst marks, in the sets of ConstSets, a leaf of the value that is not an integer constant.
const UnknownConst = int64(-1 << 63)

// ConstSets: the integer constants value v may hold in each block, by a forward data-flow from v's definition:
// v starts with the constants at the leaves of its phi tree; the true edge of `v == K` keeps K, its false edge
// removes K (and the other way round for `!=`); joins take the union. Reads `if v == A || v == B` (whose body
// has two predecessors, so that no single dominating edge says anything) as well as nested and early-return
// forms. Blocks not reachable from the definition are absent.
func ConstSets(v ssa.Value) map[*ssa.BasicBlock]map[int64]bool {
	var fn *ssa.Function
	var start *ssa.BasicBlock
	switch x := v.(type) {
	case ssa.Instruction:
		fn, start = x.Parent(), x.Block()
	case *ssa.Parameter:
		fn = x.Parent()
		if len(fn.Blocks) > 0 {
			start = fn.Blocks[0]
		}
	}
	out := map[*ssa.BasicBlock]map[int64]bool{}
	if fn == nil || start == nil {
		return out
	}
	init := map[int64]bool{}
	seen := map[ssa.Value]bool{}
	var leaves func(x ssa.Value)
	leaves = func(x ssa.Value) {
		if seen[x] {
			return
		}
		seen[x] = true
		if p, ok := x.(*ssa.Phi); ok {
			for _, e := range p.Edges {
				leaves(e)
			}
			return
		}
		if k, ok := ConstIntValue(x); ok {
			init[k] = true
			return
		}
		init[UnknownConst] = true
	}
	leaves(v)
	out[start] = init
	type cmp struct {
		k      int64
		eqTrue bool
	}
	cmps := map[*ssa.BasicBlock]cmp{}
	for _, b := range fn.Blocks {
		ifi, ok := lastIf(b)
		if !ok {
			continue
		}
		bo, ok := ifi.Cond.(*ssa.BinOp)
		if !ok || (bo.Op != token.EQL && bo.Op != token.NEQ) {
			continue
		}
		var other ssa.Value
		switch {
		case bo.X == v:
			other = bo.Y
		case bo.Y == v:
			other = bo.X
		default:
			continue
		}
		if k, ok := ConstIntValue(other); ok {
			cmps[b] = cmp{k, bo.Op == token.EQL}
		}
	}
	for changed := true; changed; {
		changed = false
		for _, b := range fn.Blocks {
			f, ok := out[b]
			if !ok {
				continue
			}
			for i, s := range b.Succs {
				if s == start {
					continue
				}
				if out[s] == nil {
					out[s] = map[int64]bool{}
					changed = true
				}
				cm, has := cmps[b]
				for k := range f {
					if has {
						keepOnly := (i == 0) == cm.eqTrue
						if keepOnly {
							// on the equal edge the value IS the constant compared with (also when it came
							// from a non-constant leaf)
							if k != cm.k && k != UnknownConst {
								continue
							}
							k = cm.k
						} else if k == cm.k {
							continue
						}
					}
					if !out[s][k] {
						out[s][k] = true
						changed = true
					}
				}
			}
		}
	}
	return out
}

var (
	sentinelMu    sync.Mutex
	sentinelCache = map[*ssa.Program]map[*ssa.Global]bool{}
)

// isSentinelError: g is stored to exactly once in the whole program, by its package's initialiser, and the
// value stored is the result of errors.New or fmt.Errorf.
func isSentinelError(g *ssa.Global) bool {
	if g == nil || g.Pkg == nil {
		return false
	}
	prog := g.Pkg.Prog
	sentinelMu.Lock()
	defer sentinelMu.Unlock()
	m, ok := sentinelCache[prog]
	if !ok {
		m = map[*ssa.Global]bool{}
		stores := map[*ssa.Global]int{}
		good := map[*ssa.Global]bool{}
		for fn := range ssautil.AllFunctions(prog) {
			for _, b := range fn.Blocks {
				for _, in := range b.Instrs {
					st, ok := in.(*ssa.Store)
					if !ok {
						continue
					}
					gg, ok := st.Addr.(*ssa.Global)
					if !ok {
						continue
					}
					stores[gg]++
					v := st.Val
					if mi, ok := v.(*ssa.MakeInterface); ok {
						v = mi.X
					}
					if call, ok := v.(*ssa.Call); ok && fn.Name() == "init" {
						if f := CalleeFunc(call); f != nil && f.Pkg() != nil {
							switch f.Pkg().Path() + "." + f.Name() {
							case "errors.New", "fmt.Errorf":
								good[gg] = true
							}
						}
					}
				}
			}
		}
		for gg := range good {
			if stores[gg] == 1 {
				m[gg] = true
			}
		}
		sentinelCache[prog] = m
	}
	return m[g]
}
