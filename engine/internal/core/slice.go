package core

import (
	"go/types"

	"golang.org/x/tools/go/ssa"
)

// Origin is a leaf of a backward value slice.
type Origin struct {
	Kind  string // const | global | call | param | field | free | other
	Str   string // constant string value (Kind const)
	Obj   types.Object
	Val   ssa.Value
	Fn    *ssa.Function // function in which the leaf was found
	Index int           // result index for call origins
}

// StaticCallers indexes every static call site (call, go, defer) of repository
// functions by callee.
func (c *Ctx) StaticCallers() map[*ssa.Function][]ssa.CallInstruction {
	fns := c.RepoFunctions()
	c.mu.Lock()
	defer c.mu.Unlock()
	if c.callers != nil {
		return c.callers
	}
	m := map[*ssa.Function][]ssa.CallInstruction{}
	for _, fn := range fns {
		for _, ci := range CallsIn(fn) {
			if callee := ci.Common().StaticCallee(); callee != nil {
				m[callee] = append(m[callee], ci)
			}
		}
	}
	c.callers = m
	return m
}

// isStringTransform: calls whose result is built from their arguments.
func isStringTransform(f *types.Func) bool {
	if f == nil || f.Pkg() == nil {
		return false
	}
	switch f.Pkg().Path() {
	case "fmt":
		switch f.Name() {
		case "Sprintf", "Sprint", "Sprintln":
			return true
		}
	case "path/filepath", "path":
		switch f.Name() {
		case "Join", "Clean", "Dir", "FromSlash", "ToSlash", "Abs":
			return true
		}
	case "strings":
		switch f.Name() {
		case "TrimSuffix", "TrimPrefix", "TrimSpace", "ToLower", "ToUpper", "Replace", "ReplaceAll", "Join", "Trim", "TrimRight", "TrimLeft", "Clone":
			return true
		}
	}
	return false
}

// Origins computes the leaves of the backward slice of v: constants, globals,
// call results, parameters, fields.  String-building calls are looked
// through; parameters are followed into static callers up to interDepth.
func (c *Ctx) Origins(v ssa.Value, interDepth int) []Origin {
	var out []Origin
	seen := map[ssa.Value]bool{}
	var rec func(v ssa.Value, depth int)
	storesTo := func(addr ssa.Value) []ssa.Value {
		var vals []ssa.Value
		if refs := addr.Referrers(); refs != nil {
			for _, r := range *refs {
				if st, ok := r.(*ssa.Store); ok && st.Addr == addr {
					vals = append(vals, st.Val)
				}
			}
		}
		return vals
	}
	rec = func(v ssa.Value, depth int) {
		if v == nil || seen[v] {
			return
		}
		seen[v] = true
		switch x := v.(type) {
		case *ssa.Const:
			s, _ := ConstStringValue(x)
			out = append(out, Origin{Kind: "const", Str: s, Val: x})
		case *ssa.Global:
			out = append(out, Origin{Kind: "global", Obj: x.Object(), Val: x})
		case *ssa.Phi:
			for _, e := range x.Edges {
				rec(e, depth)
			}
		case *ssa.BinOp:
			rec(x.X, depth)
			rec(x.Y, depth)
		case *ssa.Convert:
			rec(x.X, depth)
		case *ssa.ChangeType:
			rec(x.X, depth)
		case *ssa.ChangeInterface:
			rec(x.X, depth)
		case *ssa.MakeInterface:
			rec(x.X, depth)
		case *ssa.Slice:
			rec(x.X, depth)
		case *ssa.UnOp:
			// load
			switch a := x.X.(type) {
			case *ssa.Global:
				out = append(out, Origin{Kind: "global", Obj: a.Object(), Val: a})
			case *ssa.Alloc:
				for _, sv := range storesTo(a) {
					rec(sv, depth)
				}
			case *ssa.FieldAddr:
				st := a.X.Type().Underlying().(*types.Pointer).Elem().Underlying().(*types.Struct)
				out = append(out, Origin{Kind: "field", Obj: st.Field(a.Field), Val: a})
			case *ssa.IndexAddr:
				rec(a.X, depth)
			case *ssa.FreeVar:
				out = append(out, Origin{Kind: "free", Val: a})
			default:
				rec(x.X, depth)
			}
		case *ssa.Alloc:
			// address of a local (e.g. variadic backing array): element stores
			if refs := x.Referrers(); refs != nil {
				for _, r := range *refs {
					switch y := r.(type) {
					case *ssa.IndexAddr:
						for _, sv := range storesTo(y) {
							rec(sv, depth)
						}
					case *ssa.Store:
						if y.Addr == x {
							rec(y.Val, depth)
						}
					}
				}
			}
		case *ssa.Extract:
			if call, ok := x.Tuple.(*ssa.Call); ok {
				out = append(out, Origin{Kind: "call", Obj: calleeObj(call), Val: call, Index: x.Index})
			} else {
				out = append(out, Origin{Kind: "other", Val: x})
			}
		case *ssa.Call:
			f := CalleeFunc(x)
			if isStringTransform(f) {
				for _, a := range x.Call.Args {
					rec(a, depth)
				}
				return
			}
			out = append(out, Origin{Kind: "call", Obj: calleeObj(x), Val: x})
		case *ssa.Parameter:
			fn := x.Parent()
			if depth > 0 {
				idx := -1
				for i, p := range fn.Params {
					if p == x {
						idx = i
					}
				}
				sites := c.StaticCallers()[fn]
				if idx >= 0 && len(sites) > 0 {
					for _, ci := range sites {
						args := ci.Common().Args
						if idx < len(args) {
							rec(args[idx], depth-1)
						}
					}
					return
				}
			}
			out = append(out, Origin{Kind: "param", Val: x, Fn: fn})
		case *ssa.FreeVar:
			out = append(out, Origin{Kind: "free", Val: x})
		case *ssa.FieldAddr, *ssa.Field:
			out = append(out, Origin{Kind: "field", Val: x})
		default:
			out = append(out, Origin{Kind: "other", Val: x})
		}
	}
	rec(v, interDepth)
	return out
}

func calleeObj(call *ssa.Call) types.Object {
	if f := CalleeFunc(call); f != nil {
		return f
	}
	return nil
}
