// Package core is the shared machinery of slcheck: it loads and type-checks the
// whole siglens module from the *current working tree*, builds SSA, resolves
// anchors by (package, object) and offers CFG / call-graph helpers to the rules.
package core

import (
	"fmt"
	"go/ast"
	"go/token"
	"go/types"
	"os"
	"path/filepath"
	"sort"
	"strings"
	"sync"
	"time"

	"golang.org/x/tools/go/callgraph"
	"golang.org/x/tools/go/callgraph/cha"
	"golang.org/x/tools/go/callgraph/vta"
	"golang.org/x/tools/go/packages"
	"golang.org/x/tools/go/ssa"
	"golang.org/x/tools/go/ssa/ssautil"
)

// ModPath is the import path of the module under analysis.
const ModPath = "github.com/siglens/siglens"

// Ctx is one loaded program.
type Ctx struct {
	RepoDir string
	Tier    string
	Fset    *token.FileSet
	Roots   []*packages.Package
	ByPath  map[string]*packages.Package
	Prog    *ssa.Program

	LoadSeconds float64
	NumPkgs     int
	NumRoot     int
	NumFuncs    int

	// Baseline: the symbol table of the pinned tree (rename resolution, renames.go); Renames: anchors resolved
	// under a new name in this run ("rel.Old" -> "New")
	Baseline    Baseline
	Renames     map[string]string
	renameAll   map[string]map[string]types.Object

	mu      sync.Mutex
	allFns  map[*ssa.Function]bool
	cgVTA   *callgraph.Graph
	cgCHA   *callgraph.Graph
	srcFns  []*ssa.Function
	fileOf  map[*token.File]*ast.File
	pkgOfFn map[*ssa.Function]*packages.Package
	callers map[*ssa.Function][]ssa.CallInstruction
}

// Load loads ./... of repoDir with full syntax for every dependency, builds SSA
// and fails on any loader or type error.  overlay maps absolute file names to
// replacement contents (used by the seeded-variant pass).
func Load(repoDir, tier string, overlay map[string][]byte) (*Ctx, error) {
	t0 := time.Now()
	env := []string{}
	for _, e := range os.Environ() {
		if strings.HasPrefix(e, "GOWORK=") || strings.HasPrefix(e, "GOFLAGS=") ||
			strings.HasPrefix(e, "GOPROXY=") || strings.HasPrefix(e, "GOSUMDB=") ||
			strings.HasPrefix(e, "GOTOOLCHAIN=") {
			continue
		}
		env = append(env, e)
	}
	env = append(env, "GOFLAGS=-mod=mod", "GOPROXY=off", "GOSUMDB=off", "GOTOOLCHAIN=local", "GOWORK=off")
	fset := token.NewFileSet()
	cfg := &packages.Config{
		Mode:    packages.LoadAllSyntax,
		Dir:     repoDir,
		Env:     env,
		Fset:    fset,
		Tests:   false,
		Overlay: overlay,
	}
	roots, err := packages.Load(cfg, "./...")
	if err != nil {
		return nil, fmt.Errorf("packages.Load: %v", err)
	}
	c := &Ctx{RepoDir: repoDir, Tier: tier, Fset: fset, Roots: roots, ByPath: map[string]*packages.Package{}}
	var errs []string
	packages.Visit(roots, nil, func(p *packages.Package) {
		c.ByPath[p.PkgPath] = p
		for _, e := range p.Errors {
			errs = append(errs, e.Error())
		}
		if p.IllTyped && strings.HasPrefix(p.PkgPath, ModPath) {
			errs = append(errs, "ill-typed: "+p.PkgPath)
		}
	})
	if len(errs) > 0 {
		sort.Strings(errs)
		if len(errs) > 10 {
			errs = errs[:10]
		}
		return nil, fmt.Errorf("load/type errors: %s", strings.Join(errs, "; "))
	}
	c.NumPkgs = len(c.ByPath)
	c.NumRoot = len(roots)
	if c.NumRoot < 90 {
		return nil, fmt.Errorf("only %d root packages loaded from %s (expected >= 90)", c.NumRoot, repoDir)
	}
	prog, _ := ssautil.AllPackages(roots, ssa.InstantiateGenerics)
	prog.Build()
	c.Prog = prog
	c.LoadSeconds = time.Since(t0).Seconds()
	return c, nil
}

// IsRepoPkg reports whether path belongs to the module under analysis.
func IsRepoPkg(path string) bool {
	return path == ModPath || strings.HasPrefix(path, ModPath+"/")
}

// Pkg returns the package with module-relative path rel ("pkg/segment/writer").
func (c *Ctx) Pkg(rel string) *packages.Package {
	return c.ByPath[ModPath+"/"+rel]
}

// SSAPkg returns the SSA package for rel.
func (c *Ctx) SSAPkg(rel string) *ssa.Package {
	p := c.Pkg(rel)
	if p == nil {
		return nil
	}
	return c.Prog.Package(p.Types)
}

// AllFunctions returns every function of the program (cached).
func (c *Ctx) AllFunctions() map[*ssa.Function]bool {
	c.mu.Lock()
	defer c.mu.Unlock()
	if c.allFns == nil {
		c.allFns = ssautil.AllFunctions(c.Prog)
		c.NumFuncs = len(c.allFns)
	}
	return c.allFns
}

// RepoFunctions returns every function (including anonymous ones and methods)
// whose source lies in the module under analysis, sorted by position.
func (c *Ctx) RepoFunctions() []*ssa.Function {
	all := c.AllFunctions()
	c.mu.Lock()
	defer c.mu.Unlock()
	if c.srcFns != nil {
		return c.srcFns
	}
	var out []*ssa.Function
	for fn := range all {
		if fn.Blocks == nil {
			continue
		}
		if p := FnPkgPath(fn); IsRepoPkg(p) {
			out = append(out, fn)
		}
	}
	sort.Slice(out, func(i, j int) bool {
		pi, pj := c.Fset.Position(out[i].Pos()), c.Fset.Position(out[j].Pos())
		if pi.Filename != pj.Filename {
			return pi.Filename < pj.Filename
		}
		if pi.Offset != pj.Offset {
			return pi.Offset < pj.Offset
		}
		return out[i].String() < out[j].String()
	})
	c.srcFns = out
	return out
}

// FnPkgPath returns the package path a function belongs to (following
// closures to their parent and instantiations to their origin).
func FnPkgPath(fn *ssa.Function) string {
	for fn != nil {
		if fn.Pkg != nil {
			return fn.Pkg.Pkg.Path()
		}
		if o := fn.Origin(); o != nil && o != fn {
			fn = o
			continue
		}
		if fn.Parent() != nil {
			fn = fn.Parent()
			continue
		}
		if obj := fn.Object(); obj != nil && obj.Pkg() != nil {
			return obj.Pkg().Path()
		}
		return ""
	}
	return ""
}

// VTA returns the whole-program VTA call graph (cached).
func (c *Ctx) VTA() *callgraph.Graph {
	all := c.AllFunctions()
	c.mu.Lock()
	defer c.mu.Unlock()
	if c.cgVTA == nil {
		if c.cgCHA == nil {
			c.cgCHA = cha.CallGraph(c.Prog)
		}
		c.cgVTA = vta.CallGraph(all, c.cgCHA)
	}
	return c.cgVTA
}

// Pos renders a position relative to the repository root.
func (c *Ctx) Pos(p token.Pos) string {
	if !p.IsValid() {
		return "-"
	}
	pp := c.Fset.Position(p)
	rel, err := filepath.Rel(c.RepoDir, pp.Filename)
	if err != nil || strings.HasPrefix(rel, "..") {
		rel = pp.Filename
	}
	return fmt.Sprintf("%s:%d", rel, pp.Line)
}

// FileOf returns the syntax file containing pos (repository packages only).
func (c *Ctx) FileOf(pos token.Pos) (*ast.File, *packages.Package) {
	tf := c.Fset.File(pos)
	if tf == nil {
		return nil, nil
	}
	c.mu.Lock()
	defer c.mu.Unlock()
	if c.fileOf == nil {
		c.fileOf = map[*token.File]*ast.File{}
		c.pkgOfFn = map[*ssa.Function]*packages.Package{}
	}
	if f, ok := c.fileOf[tf]; ok {
		for _, p := range c.ByPath {
			if !IsRepoPkg(p.PkgPath) {
				continue
			}
			for _, sf := range p.Syntax {
				if sf == f {
					return f, p
				}
			}
		}
	}
	for _, p := range c.ByPath {
		if !IsRepoPkg(p.PkgPath) {
			continue
		}
		for _, sf := range p.Syntax {
			if c.Fset.File(sf.Pos()) == tf {
				c.fileOf[tf] = sf
				return sf, p
			}
		}
	}
	return nil, nil
}

// RepoPackages returns the module's packages sorted by path.
func (c *Ctx) RepoPackages() []*packages.Package {
	var out []*packages.Package
	for _, p := range c.ByPath {
		if IsRepoPkg(p.PkgPath) {
			out = append(out, p)
		}
	}
	sort.Slice(out, func(i, j int) bool { return out[i].PkgPath < out[j].PkgPath })
	return out
}

// TypesInfoFor returns the types.Info of the repository package containing pos.
func (c *Ctx) TypesInfoFor(pos token.Pos) *types.Info {
	_, p := c.FileOf(pos)
	if p == nil {
		return nil
	}
	return p.TypesInfo
}
