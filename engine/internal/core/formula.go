package core

import (
	"fmt"
	"go/ast"
	"go/token"
	"go/types"
	"sort"
	"strings"
)

// Formula is a boolean combination of order atoms between named operands,
// extracted from the syntax of a pure predicate (no code is executed: the
// formula is a canonical form that is compared with a specification over the
// finite set of orderings of its operands).
type Formula interface{ formula() }

type (
	// Atom: L op R where op is one of < <= > >= == != and L, R are operand names
	// or integer literals.
	Atom struct {
		Op   token.Token
		L, R string
	}
	And   struct{ X, Y Formula }
	Or    struct{ X, Y Formula }
	Not   struct{ X Formula }
	Const struct{ V bool }
	// Prop: an opaque boolean proposition (a boolean variable or call, or a
	// comparison that is not an order atom of interest).
	Prop struct{ Name string }
	// Ite: if C then T else E
	Ite struct{ C, T, E Formula }
)

func (Atom) formula()  {}
func (And) formula()   {}
func (Or) formula()    {}
func (Not) formula()   {}
func (Const) formula() {}
func (Prop) formula()  {}
func (Ite) formula()   {}

// ExprName renders an operand expression canonically (identifiers, selectors,
// parenthesised / converted forms thereof); "" if it is not an operand.
func ExprName(e ast.Expr) string {
	switch x := e.(type) {
	case *ast.Ident:
		return x.Name
	case *ast.SelectorExpr:
		if b := ExprName(x.X); b != "" {
			return b + "." + x.Sel.Name
		}
	case *ast.ParenExpr:
		return ExprName(x.X)
	case *ast.BasicLit:
		return x.Value
	case *ast.CallExpr:
		// zero-argument getters: x.GetEnd() is an operand named "x.GetEnd()"
		if len(x.Args) == 0 {
			if b := ExprName(x.Fun); b != "" {
				return b + "()"
			}
		}
		// conversions T(x)
		if len(x.Args) == 1 {
			if id, ok := x.Fun.(*ast.Ident); ok {
				switch id.Name {
				case "uint64", "int64", "float64", "uint32", "int32", "uint16", "int", "uint":
					return ExprName(x.Args[0])
				}
			}
		}
	case *ast.StarExpr:
		return ExprName(x.X)
	}
	return ""
}

// EqualityCalls names functions that act as an equality atom on their two
// arguments (e.g. a tolerance comparison helper).
type EqualityCalls map[string]bool

// PropMode: when set, identifiers, calls and ==/!= comparisons become opaque
// propositions instead of order atoms (used for gate conditions).
var PropMode = false

// FormulaOfExpr converts a boolean expression.
func FormulaOfExpr(e ast.Expr, eq EqualityCalls) (Formula, error) {
	if PropMode {
		switch x := e.(type) {
		case *ast.Ident:
			if x.Name != "true" && x.Name != "false" {
				return Prop{x.Name}, nil
			}
		case *ast.SelectorExpr:
			return Prop{ExprName(x)}, nil
		case *ast.CallExpr:
			if n := ExprName(x.Fun); n != "" {
				return Prop{n + "()"}, nil
			}
		case *ast.BinaryExpr:
			if x.Op == token.EQL || x.Op == token.NEQ {
				l, r := ExprName(x.X), ExprName(x.Y)
				if l != "" && r != "" {
					if x.Op == token.EQL {
						return Prop{l + "==" + r}, nil
					}
					return Not{Prop{l + "==" + r}}, nil
				}
			}
		}
	}
	switch x := e.(type) {
	case *ast.ParenExpr:
		return FormulaOfExpr(x.X, eq)
	case *ast.Ident:
		switch x.Name {
		case "true":
			return Const{true}, nil
		case "false":
			return Const{false}, nil
		}
	case *ast.UnaryExpr:
		if x.Op == token.NOT {
			f, err := FormulaOfExpr(x.X, eq)
			if err != nil {
				return nil, err
			}
			return Not{f}, nil
		}
	case *ast.BinaryExpr:
		switch x.Op {
		case token.LAND, token.LOR:
			l, err := FormulaOfExpr(x.X, eq)
			if err != nil {
				return nil, err
			}
			r, err := FormulaOfExpr(x.Y, eq)
			if err != nil {
				return nil, err
			}
			if x.Op == token.LAND {
				return And{l, r}, nil
			}
			return Or{l, r}, nil
		case token.LSS, token.LEQ, token.GTR, token.GEQ, token.EQL, token.NEQ:
			l, r := ExprName(x.X), ExprName(x.Y)
			if l == "" || r == "" {
				return nil, fmt.Errorf("operand of %s is not a plain name", x.Op)
			}
			return Atom{x.Op, l, r}, nil
		}
	case *ast.CallExpr:
		name := ExprName(x.Fun)
		if eq[name] && len(x.Args) == 2 {
			l, r := ExprName(x.Args[0]), ExprName(x.Args[1])
			if l != "" && r != "" {
				return Atom{token.EQL, l, r}, nil
			}
		}
	}
	return nil, fmt.Errorf("expression shape not recognised")
}

// FormulaOfStmts converts a statement list of the shapes
//
//	return E
//	if C { <stmts> } [else { <stmts> }] ; <stmts>
//
// into the formula of its first returned value.
func FormulaOfStmts(stmts []ast.Stmt, eq EqualityCalls) (Formula, error) {
	if len(stmts) == 0 {
		return nil, fmt.Errorf("falls off the end")
	}
	switch s := stmts[0].(type) {
	case *ast.ReturnStmt:
		if len(s.Results) == 0 {
			return nil, fmt.Errorf("bare return")
		}
		return FormulaOfExpr(s.Results[0], eq)
	case *ast.IfStmt:
		if s.Init != nil {
			return nil, fmt.Errorf("if with init")
		}
		c, err := FormulaOfExpr(s.Cond, eq)
		if err != nil {
			return nil, err
		}
		rest := stmts[1:]
		thenStmts := append(append([]ast.Stmt{}, s.Body.List...), rest...)
		t, err := FormulaOfStmts(thenStmts, eq)
		if err != nil {
			return nil, err
		}
		var elseStmts []ast.Stmt
		switch el := s.Else.(type) {
		case nil:
			elseStmts = rest
		case *ast.BlockStmt:
			elseStmts = append(append([]ast.Stmt{}, el.List...), rest...)
		case *ast.IfStmt:
			elseStmts = append([]ast.Stmt{el}, rest...)
		}
		e, err := FormulaOfStmts(elseStmts, eq)
		if err != nil {
			return nil, err
		}
		return Ite{c, t, e}, nil
	case *ast.ExprStmt, *ast.EmptyStmt:
		// logging calls
		return FormulaOfStmts(stmts[1:], eq)
	}
	return nil, fmt.Errorf("statement shape not recognised")
}

// Operands lists the distinct operand names of f (sorted), excluding literals.
func Operands(f Formula) []string {
	set := map[string]bool{}
	var rec func(f Formula)
	rec = func(f Formula) {
		switch x := f.(type) {
		case Atom:
			for _, n := range []string{x.L, x.R} {
				if n != "" && !isLiteral(n) {
					set[n] = true
				}
			}
		case Prop:
			set[x.Name] = true
		case And:
			rec(x.X)
			rec(x.Y)
		case Or:
			rec(x.X)
			rec(x.Y)
		case Not:
			rec(x.X)
		case Ite:
			rec(x.C)
			rec(x.T)
			rec(x.E)
		}
	}
	rec(f)
	var out []string
	for n := range set {
		out = append(out, n)
	}
	sort.Strings(out)
	return out
}

func isLiteral(n string) bool { return n != "" && (n[0] >= '0' && n[0] <= '9' || n[0] == '-') }

// Eval evaluates f under a rank assignment of its operands.
func Eval(f Formula, rank map[string]int) bool {
	switch x := f.(type) {
	case Const:
		return x.V
	case Prop:
		return rank[x.Name] != 0
	case Atom:
		l, r := rank[x.L], rank[x.R]
		switch x.Op {
		case token.LSS:
			return l < r
		case token.LEQ:
			return l <= r
		case token.GTR:
			return l > r
		case token.GEQ:
			return l >= r
		case token.EQL:
			return l == r
		case token.NEQ:
			return l != r
		}
	case And:
		return Eval(x.X, rank) && Eval(x.Y, rank)
	case Or:
		return Eval(x.X, rank) || Eval(x.Y, rank)
	case Not:
		return !Eval(x.X, rank)
	case Ite:
		if Eval(x.C, rank) {
			return Eval(x.T, rank)
		}
		return Eval(x.E, rank)
	}
	return false
}

// Orderings enumerates every weak ordering of the operands (rank vectors up to
// order-isomorphism are enough: ranks range over 0..n-1) that satisfies keep.
func Orderings(ops []string, keep func(rank map[string]int) bool) []map[string]int {
	var out []map[string]int
	n := len(ops)
	cur := make([]int, n)
	var rec func(i int)
	rec = func(i int) {
		if i == n {
			m := map[string]int{}
			for j, o := range ops {
				m[o] = cur[j]
			}
			if keep == nil || keep(m) {
				out = append(out, m)
			}
			return
		}
		for v := 0; v < n; v++ {
			cur[i] = v
			rec(i + 1)
		}
	}
	rec(0)
	return out
}

// RankString renders an ordering.
func RankString(rank map[string]int) string {
	var ks []string
	for k := range rank {
		ks = append(ks, k)
	}
	sort.Slice(ks, func(i, j int) bool {
		if rank[ks[i]] != rank[ks[j]] {
			return rank[ks[i]] < rank[ks[j]]
		}
		return ks[i] < ks[j]
	})
	var sb strings.Builder
	for i, k := range ks {
		if i > 0 {
			if rank[ks[i-1]] == rank[k] {
				sb.WriteString(" = ")
			} else {
				sb.WriteString(" < ")
			}
		}
		sb.WriteString(k)
	}
	return sb.String()
}

// SwitchArms returns, for the first switch statement in body whose tag has
// named type tagType, the statements of each case keyed by the constant names
// of the case expressions ("default" for the default arm).
func SwitchArms(info *types.Info, body *ast.BlockStmt, isTag func(t types.Type) bool) []map[string][]ast.Stmt {
	var out []map[string][]ast.Stmt
	ast.Inspect(body, func(n ast.Node) bool {
		sw, ok := n.(*ast.SwitchStmt)
		if !ok || sw.Tag == nil {
			return true
		}
		tv, ok := info.Types[sw.Tag]
		if !ok || !isTag(tv.Type) {
			return true
		}
		arms := map[string][]ast.Stmt{}
		for _, st := range sw.Body.List {
			cc := st.(*ast.CaseClause)
			if cc.List == nil {
				arms["default"] = cc.Body
				continue
			}
			for _, e := range cc.List {
				name := ExprName(e)
				if i := strings.LastIndex(name, "."); i >= 0 {
					name = name[i+1:]
				}
				arms[name] = cc.Body
			}
		}
		out = append(out, arms)
		return true
	})
	return out
}
