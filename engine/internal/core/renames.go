package core

import (
	"encoding/json"
	"go/types"
	"os"
	"sort"
	"strings"
)

// Renames: the clauses name the functions, methods, variables and fields the properties are anchored in.  A pure
// rename of one of them changes no behaviour, so it must not make a check fail.  The table
// tables/baseline_symbols.json (written once from the pinned tree by `slcheck -dump-symbols`) lists, per package
// of the repository, every package-level function and variable, every method and every struct field with its
// type.  When a named anchor is absent from the current tree, it is looked for under a new name: an object of the
// same kind, in the same scope (the package, or the same named type), with the identical type, whose name the
// baseline does not know — and it is accepted only if there is exactly one such object.  Every resolution made
// this way is reported as an assumption of the run (rule RENAMED), so the verdict says what it rests on; an
// anchor that was removed, inlined, or whose type changed stays unresolved (checker-cannot-decide).

// Baseline symbol table: rel package path -> name ("F", "T.m", "T.f", "v") -> descriptor.
type Baseline map[string]map[string]string

// LoadBaseline reads the table; a missing file disables rename resolution.
func LoadBaseline(path string) Baseline {
	b, err := os.ReadFile(path)
	if err != nil {
		return nil
	}
	var out Baseline
	if json.Unmarshal(b, &out) != nil {
		return nil
	}
	return out
}

func descriptor(o types.Object) string {
	q := func(p *types.Package) string { return p.Path() }
	switch x := o.(type) {
	case *types.Func:
		sig := x.Type().(*types.Signature)
		// the signature without the receiver
		return "func " + types.TypeString(types.NewSignatureType(nil, nil, nil, sig.Params(), sig.Results(), sig.Variadic()), q)
	case *types.Var:
		if x.IsField() {
			return "field " + types.TypeString(x.Type(), q)
		}
		return "var " + types.TypeString(x.Type(), q)
	}
	return ""
}

// symbolsOf lists the describable symbols of one package.
func symbolsOf(p *types.Package) map[string]types.Object {
	out := map[string]types.Object{}
	sc := p.Scope()
	for _, n := range sc.Names() {
		o := sc.Lookup(n)
		switch x := o.(type) {
		case *types.Func:
			out[n] = x
		case *types.Var:
			out[n] = x
		case *types.TypeName:
			named, ok := x.Type().(*types.Named)
			if !ok || x.IsAlias() {
				continue
			}
			for i := 0; i < named.NumMethods(); i++ {
				m := named.Method(i)
				out[n+"."+m.Name()] = m
			}
			if it, ok := named.Underlying().(*types.Interface); ok {
				for i := 0; i < it.NumExplicitMethods(); i++ {
					m := it.ExplicitMethod(i)
					out[n+"."+m.Name()] = m
				}
			}
			if st, ok := named.Underlying().(*types.Struct); ok {
				for i := 0; i < st.NumFields(); i++ {
					f := st.Field(i)
					out[n+"."+f.Name()] = f
				}
			}
		}
	}
	return out
}

// DumpSymbols renders the baseline table of the loaded program.
func (c *Ctx) DumpSymbols() ([]byte, error) {
	out := Baseline{}
	for path, p := range c.ByPath {
		if !strings.HasPrefix(path, ModPath+"/") && path != ModPath {
			continue
		}
		rel := strings.TrimPrefix(strings.TrimPrefix(path, ModPath), "/")
		m := map[string]string{}
		for n, o := range symbolsOf(p.Types) {
			if d := descriptor(o); d != "" {
				m[n] = d
			}
		}
		out[rel] = m
	}
	return json.MarshalIndent(out, "", " ")
}

// allRenames computes, once, every pure rename between the baseline and the current tree:
// rel -> old name -> the object now carrying the new name.
func (c *Ctx) allRenames() map[string]map[string]types.Object {
	c.mu.Lock()
	defer c.mu.Unlock()
	if c.renameAll != nil {
		return c.renameAll
	}
	c.renameAll = map[string]map[string]types.Object{}
	if c.Baseline == nil {
		return c.renameAll
	}
	for rel, base := range c.Baseline {
		p := c.ByPath[ModPath+"/"+rel]
		if rel == "" {
			p = c.ByPath[ModPath]
		}
		if p == nil || p.Types == nil {
			continue
		}
		cur := symbolsOf(p.Types)
		// the names the baseline does not know, by scope and descriptor
		fresh := map[string][]string{}
		for n, o := range cur {
			if _, known := base[n]; known {
				continue
			}
			scope := ""
			if i := strings.Index(n, "."); i >= 0 {
				scope = n[:i+1]
			}
			k := scope + "\x00" + descriptor(o)
			fresh[k] = append(fresh[k], n)
		}
		// the baseline names that are gone, by the same key
		gone := map[string][]string{}
		for n, d := range base {
			if _, still := cur[n]; still {
				continue
			}
			scope := ""
			if i := strings.Index(n, "."); i >= 0 {
				scope = n[:i+1]
			}
			gone[scope+"\x00"+d] = append(gone[scope+"\x00"+d], n)
		}
		for k, olds := range gone {
			// exactly one name went and exactly one came, same scope, same type
			if len(olds) == 1 && len(fresh[k]) == 1 {
				if c.renameAll[rel] == nil {
					c.renameAll[rel] = map[string]types.Object{}
				}
				c.renameAll[rel][olds[0]] = cur[fresh[k][0]]
			}
		}
	}
	return c.renameAll
}

// renamed looks the absent anchor rel.name up under a new name (see the comment at the top of the file).
func (c *Ctx) renamed(rel, name string) types.Object {
	o := c.allRenames()[rel][name]
	if o != nil {
		c.mu.Lock()
		if c.Renames == nil {
			c.Renames = map[string]string{}
		}
		c.Renames[rel+"."+name] = o.Name()
		c.mu.Unlock()
	}
	return o
}

// ResetRenamesUsed forgets which renames were relied on (called before each property).
func (c *Ctx) ResetRenamesUsed() {
	c.mu.Lock()
	c.Renames = nil
	c.mu.Unlock()
}

// RenamesUsed lists "old -> new" for every anchor resolved under a new name since the last reset.
func (c *Ctx) RenamesUsed() []string {
	c.mu.Lock()
	defer c.mu.Unlock()
	var out []string
	for k, v := range c.Renames {
		out = append(out, k+" -> "+v)
	}
	sort.Strings(out)
	return out
}

// OldShortNames maps the new short name of every renamed function, method, variable or field back to the
// baseline one: the keys of recorded findings name constructs by their baseline names.
func (c *Ctx) OldShortNames() map[string]string {
	out := map[string]string{}
	for _, m := range c.allRenames() {
		for old, o := range m {
			if j := strings.LastIndex(old, "."); j >= 0 {
				old = old[j+1:]
			}
			out[o.Name()] = old
		}
	}
	return out
}

// BaseName: the name the object had in the baseline (its current name unless it was renamed); tables of named
// exceptions are keyed by baseline names.
func (c *Ctx) BaseName(o types.Object) string {
	if o == nil {
		return ""
	}
	for _, m := range c.allRenames() {
		for old, cur := range m {
			if cur == o {
				if j := strings.LastIndex(old, "."); j >= 0 {
					old = old[j+1:]
				}
				return old
			}
		}
	}
	return o.Name()
}
