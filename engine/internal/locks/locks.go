// Package locks implements the PAIR / LOCKORDER / HELD analyses: an
// intraprocedural forward dataflow of held mutex classes over go/ssa with
// interprocedural may-acquire summaries.
package locks

import (
	"fmt"
	"go/types"
	"sort"
	"strings"

	"golang.org/x/tools/go/ssa"

	"verif/engine/internal/core"
)

// Class identifies a mutex up to object-insensitivity: a package-level
// variable, a struct field, a local, or a parameter.
type Class struct {
	Kind string // global | field | local | param | unknown
	Name string
}

func (c Class) String() string { return c.Name }

// Shared reports whether two acquisitions of the class may denote the same
// mutex object for certain (package-level singletons).
func (c Class) Singleton() bool { return c.Kind == "global" }

// Op is a mutex operation.
type Op int

const (
	OpLock Op = iota
	OpRLock
	OpUnlock
	OpRUnlock
)

// Site is one mutex operation in the source.
type Site struct {
	Instr    ssa.CallInstruction
	Fn       *ssa.Function
	Class    Class
	Op       Op
	Deferred bool
}

// Held describes one held lock in a dataflow state.
type Held = held

type held struct {
	Class Class
	Read  bool
}

// state is the set of locks that may / must be held.
type state struct {
	may  map[held]bool
	must map[held]bool
	defs map[*ssa.Defer]bool // deferred calls registered so far (may)
}

func newState() *state {
	return &state{may: map[held]bool{}, must: map[held]bool{}, defs: map[*ssa.Defer]bool{}}
}

func (s *state) clone() *state {
	n := newState()
	for k := range s.may {
		n.may[k] = true
	}
	for k := range s.must {
		n.must[k] = true
	}
	for k := range s.defs {
		n.defs[k] = true
	}
	return n
}

// join merges o into s; returns true if s changed.
func (s *state) join(o *state) bool {
	changed := false
	for k := range o.may {
		if !s.may[k] {
			s.may[k] = true
			changed = true
		}
	}
	for k := range s.must {
		if !o.must[k] {
			delete(s.must, k)
			changed = true
		}
	}
	for k := range o.defs {
		if !s.defs[k] {
			s.defs[k] = true
			changed = true
		}
	}
	return changed
}

// FnFacts are the per-function results.
type FnFacts struct {
	Fn    *ssa.Function
	Sites []Site
	// MustAt / MayAt: held sets immediately before each instruction of interest
	// (call-like instructions and map/field accesses registered by Watch).
	MustAt map[ssa.Instruction][]held
	MayAt  map[ssa.Instruction][]held
	// ExitHeld: classes that may still be held at a normal return.
	ExitHeld map[held][]*ssa.Return
	// UnlockNotHeld: unlock operations of a class not (may-)held at that point.
	UnlockNotHeld []Site
	// DoubleLock: Lock of a class that must already be held in write mode, or
	// RLock of a class must-held in any mode (recursive read lock).
	DoubleLock []Site
}

// Analysis holds the whole-program results.
type Analysis struct {
	C       *core.Ctx
	Facts   map[*ssa.Function]*FnFacts
	lockFns map[*types.Func]Op
	// Acquires: classes a function may acquire, transitively through static calls.
	Acquires map[*ssa.Function]map[Class]bool
	// acquireWitness[fn][class] = the call instruction in fn leading to the acquisition
	acquireWitness map[*ssa.Function]map[Class]ssa.Instruction
	Watch          func(in ssa.Instruction) bool
	// wrapper summaries (derived, never listed by hand)
	acqW map[*ssa.Function][]held // locks the function certainly holds at every return (acquire wrapper)
	relW map[*ssa.Function][]held // locks the function releases without acquiring (caller-held)
	// relKeeps[fn][h]: the release wrapper may return with h still held
	relKeeps map[*ssa.Function]map[held]bool
	// DynCallees resolves dynamic calls (optional).
	DynCallees func(ci ssa.CallInstruction) []*ssa.Function
}

// New prepares an analysis.  watch selects additional instructions whose held
// sets are recorded.
func New(c *core.Ctx, watch func(in ssa.Instruction) bool) *Analysis {
	a := &Analysis{C: c, Facts: map[*ssa.Function]*FnFacts{}, lockFns: map[*types.Func]Op{}, Watch: watch}
	for name, op := range map[string]Op{"Mutex.Lock": OpLock, "Mutex.Unlock": OpUnlock, "RWMutex.Lock": OpLock, "RWMutex.Unlock": OpUnlock, "RWMutex.RLock": OpRLock, "RWMutex.RUnlock": OpRUnlock} {
		a.lockFns[c.ExtObj("sync", name).(*types.Func)] = op
	}
	return a
}

// ClassOf derives the lock class of a mutex address value.
func ClassOf(v ssa.Value) Class {
	switch x := v.(type) {
	case *ssa.Global:
		return Class{"global", short(x.Pkg.Pkg.Path()) + "." + x.Name()}
	case *ssa.FieldAddr:
		pt, ok := x.X.Type().Underlying().(*types.Pointer)
		if ok {
			if st, ok := pt.Elem().Underlying().(*types.Struct); ok {
				f := st.Field(x.Field)
				tn := typeName(pt.Elem())
				if tn == "" {
					// anonymous struct: name it by the enclosing access path
					if inner := ClassOf(x.X); inner.Kind != "unknown" {
						return Class{inner.Kind, inner.Name + "." + f.Name()}
					}
					tn = "struct"
				}
				// a struct stored in a package-level variable is a singleton
				if g, ok := x.X.(*ssa.Global); ok {
					return Class{"global", short(g.Pkg.Pkg.Path()) + "." + g.Name() + "." + f.Name()}
				}
				return Class{"field", "(" + tn + ")." + f.Name()}
			}
		}
	case *ssa.UnOp:
		// load of a pointer-typed variable/field holding the mutex address
		switch y := x.X.(type) {
		case *ssa.Global:
			return Class{"global", short(y.Pkg.Pkg.Path()) + "." + y.Name()}
		case *ssa.FieldAddr:
			return ClassOf(y)
		case *ssa.Alloc:
			return ClassOf(y)
		case *ssa.FreeVar:
			return Class{"local", "captured:" + fnShort(y.Parent()) + ":" + y.Name()}
		}
	case *ssa.Alloc:
		name := x.Comment
		if name == "" {
			name = x.Name()
		}
		return Class{"local", "local:" + fnShort(x.Parent()) + ":" + name}
	case *ssa.FreeVar:
		return Class{"local", "captured:" + fnShort(x.Parent()) + ":" + x.Name()}
	case *ssa.Parameter:
		return Class{"param", "param:" + fnShort(x.Parent()) + ":" + x.Name()}
	case *ssa.Phi:
		for _, e := range x.Edges {
			if c := ClassOf(e); c.Kind != "unknown" {
				return c
			}
		}
	case *ssa.IndexAddr:
		return Class{"field", "elem-of:" + x.X.Type().String()}
	case *ssa.Lookup:
		if u, ok := x.X.(*ssa.UnOp); ok {
			if g, ok := u.X.(*ssa.Global); ok {
				return Class{"field", "elem-of:" + short(g.Pkg.Pkg.Path()) + "." + g.Name()}
			}
		}
		return Class{"field", "elem-of:" + x.X.Type().String()}
	case *ssa.Extract:
		return ClassOf(x.Tuple)
	case *ssa.Call:
		if f := core.CalleeFunc(x); f != nil {
			return Class{"field", "result-of:" + core.ObjName(f)}
		}
	}
	return Class{"unknown", "unknown:" + v.String()}
}

func short(p string) string { return strings.TrimPrefix(p, core.ModPath+"/") }

func typeName(t types.Type) string {
	if n, ok := t.(*types.Named); ok {
		if n.Obj().Pkg() != nil {
			return short(n.Obj().Pkg().Path()) + "." + n.Obj().Name()
		}
		return n.Obj().Name()
	}
	return ""
}

func fnShort(fn *ssa.Function) string {
	if fn == nil {
		return "?"
	}
	return strings.ReplaceAll(fn.String(), core.ModPath+"/", "")
}

// siteOf classifies a call-like instruction as a mutex operation.
func (a *Analysis) siteOf(ci ssa.CallInstruction) (Site, bool) {
	f := core.CalleeFunc(ci)
	if f == nil {
		return Site{}, false
	}
	op, ok := a.lockFns[f]
	if !ok {
		return Site{}, false
	}
	cc := ci.Common()
	if len(cc.Args) == 0 {
		return Site{}, false
	}
	_, isDefer := ci.(*ssa.Defer)
	return Site{Instr: ci, Fn: ci.Parent(), Class: ClassOf(cc.Args[0]), Op: op, Deferred: isDefer}, true
}

// lockerMethodOp: calls through sync.Locker or embedded promoted methods are
// already resolved by go/ssa to (*sync.Mutex).Lock etc.

// Run analyses every repository function.
func (a *Analysis) Run() {
	fns := a.C.RepoFunctions()
	a.acqW = map[*ssa.Function][]held{}
	a.relW = map[*ssa.Function][]held{}
	a.relKeeps = map[*ssa.Function]map[held]bool{}
	var withOps []*ssa.Function
	for _, fn := range fns {
		a.Facts[fn] = a.analyse(fn)
		if len(a.Facts[fn].Sites) > 0 {
			withOps = append(withOps, fn)
		}
	}
	affected := map[*ssa.Function]bool{}
	for _, fn := range withOps {
		affected[fn] = true
	}
	callers := a.C.StaticCallers()
	for round := 0; round < 6; round++ {
		changed := false
		var list []*ssa.Function
		for fn := range affected {
			list = append(list, fn)
		}
		sort.Slice(list, func(i, j int) bool { return list[i].String() < list[j].String() })
		for _, fn := range list {
			ff := a.Facts[fn]
			// release wrapper: unlocks a lock it does not hold
			var rel []held
			seenRel := map[held]bool{}
			for _, h := range a.relW[fn] {
				seenRel[h] = true
				rel = append(rel, h)
			}
			for _, s := range ff.UnlockNotHeld {
				h := held{s.Class, s.Op == OpRUnlock}
				if s.Class.Kind == "local" || s.Class.Kind == "unknown" {
					continue
				}
				if !seenRel[h] {
					seenRel[h] = true
					rel = append(rel, h)
					changed = true
				}
			}
			if len(rel) > 0 {
				a.relW[fn] = rel
			}
			// acquire wrapper: must-held at every return
			var acq []held
			rets := core.Returns(fn)
			if len(rets) > 0 {
				first := true
				cand := map[held]bool{}
				for _, ret := range rets {
					cur := map[held]bool{}
					for _, h := range ff.MustAt[ret] {
						cur[h] = true
					}
					if first {
						cand = cur
						first = false
					} else {
						for h := range cand {
							if !cur[h] {
								delete(cand, h)
							}
						}
					}
				}
				for h := range cand {
					if seenRel[h] || h.Class.Kind == "local" || h.Class.Kind == "unknown" {
						continue // a caller-held lock that is simply kept
					}
					acq = append(acq, h)
				}
				sort.Slice(acq, func(i, j int) bool { return acq[i].Class.Name < acq[j].Class.Name })
			}
			if fmt.Sprint(acq) != fmt.Sprint(a.acqW[fn]) {
				a.acqW[fn] = acq
				changed = true
			}
			keeps := map[held]bool{}
			for _, h := range rel {
				if _, ok := ff.ExitHeld[h]; ok {
					keeps[h] = true
				}
			}
			if fmt.Sprint(keeps) != fmt.Sprint(a.relKeeps[fn]) {
				a.relKeeps[fn] = keeps
				changed = true
			}
		}
		if !changed {
			break
		}
		// re-analyse wrappers and their (transitive, one level per round) callers
		next := map[*ssa.Function]bool{}
		for fn := range affected {
			if len(a.acqW[fn]) > 0 || len(a.relW[fn]) > 0 {
				next[fn] = true
				for _, site := range callers[fn] {
					next[site.Parent()] = true
				}
			}
		}
		for fn := range next {
			a.Facts[fn] = a.analyse(fn)
			affected[fn] = true
		}
	}
	a.computeAcquires(fns)
}

// ReleaseWrapper reports the caller-held locks fn releases.
func (a *Analysis) ReleaseWrapper(fn *ssa.Function) []string {
	var out []string
	for _, h := range a.relW[fn] {
		out = append(out, h.String())
	}
	return out
}

// AcquireWrapper reports the locks fn returns holding.
func (a *Analysis) AcquireWrapper(fn *ssa.Function) []string {
	var out []string
	for _, h := range a.acqW[fn] {
		out = append(out, h.String())
	}
	return out
}

// IsAcquireWrapperFor reports whether fn returns holding class cl.
func (a *Analysis) IsAcquireWrapperFor(fn *ssa.Function, cl Class) bool {
	for _, h := range a.acqW[fn] {
		if h.Class == cl {
			return true
		}
	}
	return false
}

func heldList(m map[held]bool) []held {
	var out []held
	for k := range m {
		out = append(out, k)
	}
	sort.Slice(out, func(i, j int) bool {
		if out[i].Class.Name != out[j].Class.Name {
			return out[i].Class.Name < out[j].Class.Name
		}
		return !out[i].Read && out[j].Read
	})
	return out
}

func (a *Analysis) analyse(fn *ssa.Function) *FnFacts {
	ff := &FnFacts{Fn: fn, MustAt: map[ssa.Instruction][]held{}, MayAt: map[ssa.Instruction][]held{}, ExitHeld: map[held][]*ssa.Return{}}
	if len(fn.Blocks) == 0 {
		return ff
	}
	hasLockOp := false
	for _, ci := range core.CallsIn(fn) {
		if s, ok := a.siteOf(ci); ok {
			ff.Sites = append(ff.Sites, s)
			hasLockOp = true
		}
	}
	in := map[*ssa.BasicBlock]*state{}
	in[fn.Blocks[0]] = newState()
	for _, h := range a.relW[fn] {
		in[fn.Blocks[0]].may[h] = true
		in[fn.Blocks[0]].must[h] = true
	}
	work := []*ssa.BasicBlock{fn.Blocks[0]}
	inWork := map[*ssa.BasicBlock]bool{fn.Blocks[0]: true}
	record := false
	transfer := func(b *ssa.BasicBlock, st *state) *state {
		st = st.clone()
		for _, ins := range b.Instrs {
			if record {
				if ci, ok := ins.(ssa.CallInstruction); ok {
					_ = ci
					ff.MustAt[ins] = heldList(st.must)
					ff.MayAt[ins] = heldList(st.may)
				} else if _, isRet := ins.(*ssa.Return); isRet {
					ff.MustAt[ins] = heldList(st.must)
					ff.MayAt[ins] = heldList(st.may)
				} else if a.Watch != nil && a.Watch(ins) {
					ff.MustAt[ins] = heldList(st.must)
					ff.MayAt[ins] = heldList(st.may)
				}
			}
			switch x := ins.(type) {
			case *ssa.Defer:
				st.defs[x] = true
			case *ssa.Call:
				if s, ok := a.siteOf(x); ok {
					a.apply(ff, st, s, record)
				} else if callee := x.Call.StaticCallee(); callee != nil {
					a.applyWrapper(ff, st, x, callee, record)
				}
			case *ssa.RunDefers:
				// deferred unlocks run now
				var ds []*ssa.Defer
				for d := range st.defs {
					ds = append(ds, d)
				}
				sort.Slice(ds, func(i, j int) bool { return ds[i].Pos() > ds[j].Pos() })
				for _, d := range ds {
					if s, ok := a.siteOf(d); ok {
						a.apply(ff, st, s, false)
					} else if callee := d.Call.StaticCallee(); callee != nil && (len(a.relW[callee]) > 0 || len(a.acqW[callee]) > 0) {
						a.applyWrapper(ff, st, d, callee, false)
					} else if mc, ok := d.Call.Value.(*ssa.MakeClosure); ok {
						// defer func() { mu.Unlock() }()
						for _, ci := range core.CallsIn(mc.Fn.(*ssa.Function)) {
							if s, ok := a.siteOf(ci); ok && (s.Op == OpUnlock || s.Op == OpRUnlock) {
								// the closure's lock address is a free variable; map it to the binding
								s.Class = a.closureClass(mc, ci)
								a.apply(ff, st, s, false)
							}
						}
					}
				}
			case *ssa.Return:
				if record && b != fn.Recover {
					for h := range st.may {
						ff.ExitHeld[h] = append(ff.ExitHeld[h], x)
					}
				}
			}
		}
		return st
	}
	_ = hasLockOp
	for len(work) > 0 {
		b := work[len(work)-1]
		work = work[:len(work)-1]
		inWork[b] = false
		out := transfer(b, in[b])
		for _, s := range b.Succs {
			if in[s] == nil {
				in[s] = out.clone()
				if !inWork[s] {
					work = append(work, s)
					inWork[s] = true
				}
			} else if in[s].join(out) {
				if !inWork[s] {
					work = append(work, s)
					inWork[s] = true
				}
			}
		}
	}
	record = true
	for _, b := range fn.Blocks {
		if in[b] != nil {
			transfer(b, in[b])
		}
	}
	return ff
}

// closureClass resolves the lock class used inside a deferred closure to the
// class of the captured variable's binding.
func (a *Analysis) closureClass(mc *ssa.MakeClosure, ci ssa.CallInstruction) Class {
	arg := ci.Common().Args[0]
	fn := mc.Fn.(*ssa.Function)
	find := func(v ssa.Value) (ssa.Value, bool) {
		for i, fv := range fn.FreeVars {
			if fv == v && i < len(mc.Bindings) {
				return mc.Bindings[i], true
			}
		}
		return nil, false
	}
	switch x := arg.(type) {
	case *ssa.FreeVar:
		if b, ok := find(x); ok {
			return ClassOf(b)
		}
	case *ssa.UnOp:
		if b, ok := find(x.X); ok {
			// the free variable holds the address of the captured variable
			if al, ok := b.(*ssa.Alloc); ok {
				return ClassOf(al)
			}
			return ClassOf(b)
		}
	case *ssa.FieldAddr:
		if u, ok := x.X.(*ssa.UnOp); ok {
			if _, ok := find(u.X); ok {
				return ClassOf(x)
			}
		}
		return ClassOf(x)
	}
	return ClassOf(arg)
}

// applyWrapper applies the derived summary of a lock wrapper at a call.
func (a *Analysis) applyWrapper(ff *FnFacts, st *state, ci ssa.CallInstruction, callee *ssa.Function, record bool) {
	for _, h := range a.relW[callee] {
		if !st.may[h] && record {
			op := OpUnlock
			if h.Read {
				op = OpRUnlock
			}
			ff.UnlockNotHeld = append(ff.UnlockNotHeld, Site{Instr: ci, Fn: ff.Fn, Class: h.Class, Op: op})
		}
		delete(st.must, h)
		if !a.relKeeps[callee][h] {
			delete(st.may, h)
		}
	}
	for _, h := range a.acqW[callee] {
		if record && (st.must[held{h.Class, false}] || st.must[held{h.Class, true}]) {
			op := OpLock
			if h.Read {
				op = OpRLock
			}
			ff.DoubleLock = append(ff.DoubleLock, Site{Instr: ci, Fn: ff.Fn, Class: h.Class, Op: op})
		}
		st.may[h] = true
		st.must[h] = true
	}
}

func (a *Analysis) apply(ff *FnFacts, st *state, s Site, record bool) {
	switch s.Op {
	case OpLock, OpRLock:
		h := held{s.Class, s.Op == OpRLock}
		if record {
			w := held{s.Class, false}
			rd := held{s.Class, true}
			if (s.Op == OpLock && (st.must[w] || st.must[rd])) || (s.Op == OpRLock && (st.must[w] || st.must[rd])) {
				ff.DoubleLock = append(ff.DoubleLock, s)
			}
		}
		st.may[h] = true
		st.must[h] = true
	case OpUnlock, OpRUnlock:
		h := held{s.Class, s.Op == OpRUnlock}
		if !st.may[h] && record {
			ff.UnlockNotHeld = append(ff.UnlockNotHeld, s)
		}
		delete(st.may, h)
		delete(st.must, h)
	}
}

// computeAcquires: transitive may-acquire sets over static calls (not `go`).
func (a *Analysis) computeAcquires(fns []*ssa.Function) {
	a.Acquires = map[*ssa.Function]map[Class]bool{}
	a.acquireWitness = map[*ssa.Function]map[Class]ssa.Instruction{}
	for _, fn := range fns {
		m := map[Class]bool{}
		w := map[Class]ssa.Instruction{}
		for _, s := range a.Facts[fn].Sites {
			if s.Op == OpLock || s.Op == OpRLock {
				m[s.Class] = true
				w[s.Class] = s.Instr
			}
		}
		a.Acquires[fn] = m
		a.acquireWitness[fn] = w
	}
	for changed := true; changed; {
		changed = false
		for _, fn := range fns {
			for _, ci := range core.CallsIn(fn) {
				if _, isGo := ci.(*ssa.Go); isGo {
					continue
				}
				for _, callee := range a.callees(ci) {
					for cl := range a.Acquires[callee] {
						if cl.Kind == "local" || cl.Kind == "param" || cl.Kind == "unknown" {
							continue
						}
						if !a.Acquires[fn][cl] {
							a.Acquires[fn][cl] = true
							a.acquireWitness[fn][cl] = ci
							changed = true
						}
					}
				}
			}
		}
	}
}

// callees resolves a call to repository functions (static, closures, and the
// optional dynamic resolver).
func (a *Analysis) callees(ci ssa.CallInstruction) []*ssa.Function {
	cc := ci.Common()
	if f := cc.StaticCallee(); f != nil {
		if f.Blocks != nil && core.IsRepoPkg(core.FnPkgPath(f)) {
			return []*ssa.Function{f}
		}
		return nil
	}
	if mc, ok := cc.Value.(*ssa.MakeClosure); ok {
		return []*ssa.Function{mc.Fn.(*ssa.Function)}
	}
	if a.DynCallees != nil {
		var out []*ssa.Function
		for _, f := range a.DynCallees(ci) {
			if f.Blocks != nil && core.IsRepoPkg(core.FnPkgPath(f)) {
				out = append(out, f)
			}
		}
		return out
	}
	return nil
}

// Callees exposes callee resolution.
func (a *Analysis) Callees(ci ssa.CallInstruction) []*ssa.Function { return a.callees(ci) }

// Edge is a lock-order edge: `To` is acquired while `From` is held.
type Edge struct {
	From, To Class
	FromRead bool
	ToRead   bool
	Fn       *ssa.Function
	At       ssa.Instruction // the Lock call or the call leading to it
	Via      []string        // witness call chain
}

// Edges builds the held->acquired relation.
func (a *Analysis) Edges() []Edge {
	var out []Edge
	seen := map[string]bool{}
	add := func(e Edge) {
		k := fmt.Sprintf("%s|%v|%s|%v", e.From.Name, e.FromRead, e.To.Name, e.ToRead)
		if seen[k] {
			return
		}
		seen[k] = true
		out = append(out, e)
	}
	fns := a.C.RepoFunctions()
	for _, fn := range fns {
		ff := a.Facts[fn]
		for _, ci := range core.CallsIn(fn) {
			if _, isGo := ci.(*ssa.Go); isGo {
				continue
			}
			heldNow := ff.MayAt[ci]
			if len(heldNow) == 0 {
				continue
			}
			if s, ok := a.siteOf(ci); ok {
				if s.Deferred {
					continue
				}
				if s.Op == OpLock || s.Op == OpRLock {
					if a.freshReceiver(ci.Common().Args[0], ci) {
						// the mutex belongs to an object created inside this function (or by a
						// constructor it called) that no other goroutine can reach yet: the
						// acquisition cannot block, so it orders nothing
						continue
					}
					for _, h := range heldNow {
						add(Edge{From: h.Class, FromRead: h.Read, To: s.Class, ToRead: s.Op == OpRLock, Fn: fn, At: ci})
					}
				}
				continue
			}
			if _, isDefer := ci.(*ssa.Defer); isDefer {
				continue // runs at exit; handled conservatively by RunDefers only for unlocks
			}
			for _, callee := range a.callees(ci) {
				for cl := range a.Acquires[callee] {
					for _, h := range heldNow {
						add(Edge{From: h.Class, FromRead: h.Read, To: cl, ToRead: false, Fn: fn, At: ci, Via: a.witness(callee, cl)})
					}
				}
			}
		}
	}
	sort.Slice(out, func(i, j int) bool {
		if out[i].From.Name != out[j].From.Name {
			return out[i].From.Name < out[j].From.Name
		}
		return out[i].To.Name < out[j].To.Name
	})
	return out
}

// witness returns a call chain from fn to the acquisition of cl.
func (a *Analysis) witness(fn *ssa.Function, cl Class) []string {
	var out []string
	seen := map[*ssa.Function]bool{}
	for fn != nil && !seen[fn] {
		seen[fn] = true
		w := a.acquireWitness[fn][cl]
		if w == nil {
			break
		}
		out = append(out, fmt.Sprintf("%s at %s", fnShort(fn), a.C.Pos(w.Pos())))
		ci, ok := w.(ssa.CallInstruction)
		if !ok {
			break
		}
		if _, isSite := a.siteOf(ci); isSite {
			break
		}
		next := a.callees(ci)
		fn = nil
		for _, n := range next {
			if a.Acquires[n][cl] {
				fn = n
				break
			}
		}
	}
	return out
}

// IsLockRead reports whether the acquisition at the edge target was a read lock
// (only known for direct Lock sites).
func (a *Analysis) SiteOf(ci ssa.CallInstruction) (Site, bool) { return a.siteOf(ci) }

// MustHold reports whether class cl is must-held (mode: write required?) at in.
func (ff *FnFacts) MustHold(in ssa.Instruction, cl Class, needWrite bool) bool {
	for _, h := range ff.MustAt[in] {
		if h.Class == cl && (!needWrite || !h.Read) {
			return true
		}
	}
	return false
}

// HeldClass exposes a held entry.
func (h held) String() string {
	if h.Read {
		return h.Class.Name + "(R)"
	}
	return h.Class.Name
}

// MayAtStrings renders the may-held set at an instruction.
func (ff *FnFacts) MayAtStrings(in ssa.Instruction) []string {
	var out []string
	for _, h := range ff.MayAt[in] {
		out = append(out, h.String())
	}
	return out
}

// MayHolds returns the may-held entries at an instruction as (class, read).
func (ff *FnFacts) MayHolds(in ssa.Instruction) []struct {
	Class Class
	Read  bool
} {
	var out []struct {
		Class Class
		Read  bool
	}
	for _, h := range ff.MayAt[in] {
		out = append(out, struct {
			Class Class
			Read  bool
		}{h.Class, h.Read})
	}
	return out
}

// ExitHeldList lists (class, read, returns) still held at exits.
func (ff *FnFacts) ExitHeldList() []struct {
	Class Class
	Read  bool
	Rets  []*ssa.Return
} {
	var out []struct {
		Class Class
		Read  bool
		Rets  []*ssa.Return
	}
	for h, rets := range ff.ExitHeld {
		out = append(out, struct {
			Class Class
			Read  bool
			Rets  []*ssa.Return
		}{h.Class, h.Read, rets})
	}
	sort.Slice(out, func(i, j int) bool { return out[i].Class.Name < out[j].Class.Name })
	return out
}

// freshReceiver: the mutex address is a field of (or is loaded from a field
// of) an object that was allocated in this function or returned by a static
// callee all of whose returns hand out a new allocation.
func (a *Analysis) freshReceiver(v ssa.Value, at ssa.Instruction) bool {
	var base ssa.Value
	switch x := v.(type) {
	case *ssa.FieldAddr:
		base = x.X
	case *ssa.UnOp:
		if fa, ok := x.X.(*ssa.FieldAddr); ok {
			base = fa.X
		}
	}
	if base == nil {
		return false
	}
	if !a.isFreshValue(base, 0) {
		return false
	}
	// not yet published: no use before the acquisition that could make the object reachable by another goroutine
	if refs := base.Referrers(); refs != nil {
		for _, u := range *refs {
			if u == at || !core.InstrDominates(u, at) {
				continue
			}
			switch x := u.(type) {
			case *ssa.FieldAddr, *ssa.DebugRef:
			case *ssa.Store:
				if x.Val == base {
					if _, local := x.Addr.(*ssa.Alloc); !local {
						return false
					}
				}
			case *ssa.BinOp, *ssa.If, *ssa.UnOp:
			default:
				return false // call argument, map update, send, closure capture, return ...
			}
		}
	}
	return true
}

func (a *Analysis) isFreshValue(v ssa.Value, depth int) bool {
	if depth > 3 {
		return false
	}
	switch x := v.(type) {
	case *ssa.Alloc:
		return true
	case *ssa.Extract:
		if call, ok := x.Tuple.(*ssa.Call); ok {
			return a.returnsFresh(call, x.Index, depth)
		}
	case *ssa.Call:
		return a.returnsFresh(x, 0, depth)
	}
	return false
}

func (a *Analysis) returnsFresh(call *ssa.Call, idx int, depth int) bool {
	callee := call.Call.StaticCallee()
	if callee == nil || callee.Blocks == nil {
		return false
	}
	rets := core.Returns(callee)
	if len(rets) == 0 {
		return false
	}
	some := false
	for _, ret := range rets {
		if idx >= len(ret.Results) {
			return false
		}
		rv := core.RetResult(ret, idx)
		if core.IsNilConst(rv) {
			continue
		}
		if !a.isFreshValue(rv, depth+1) {
			return false
		}
		some = true
	}
	return some
}
