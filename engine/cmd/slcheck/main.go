// slcheck decides structural clauses of the siglens properties from the source
// of the repository's current working tree (static analysis only).
package main

import (
	"encoding/json"
	"flag"
	"fmt"
	"os"
	"path/filepath"
	"runtime/debug"
	"strconv"
	"strings"
	"time"

	"verif/engine/internal/core"
	"verif/engine/internal/props"
)

func main() {
	repo := flag.String("repo", "/repo", "repository working tree")
	verif := flag.String("verif", "/verif", "verification directory")
	prop := flag.String("prop", "", "property id(s), comma separated, or 'all'")
	tier := flag.String("tier", "quick", "quick|thorough")
	replay := flag.String("replay", "", "violation file to re-evaluate")
	noEvidence := flag.Bool("no-evidence", false, "do not write evidence files")
	overlayFile := flag.String("overlay", "", "JSON file {abs path: contents} applied as source overlay (variant pass)")
	dumpSymbols := flag.String("dump-symbols", "", "write the symbol table of -repo (baseline for rename resolution) to this file and exit")
	flag.Parse()
	if *dumpSymbols != "" {
		c, err := core.Load(*repo, "quick", nil)
		if err != nil {
			fmt.Println("load failed:", err)
			os.Exit(2)
		}
		b, err := c.DumpSymbols()
		if err == nil {
			err = os.WriteFile(*dumpSymbols, b, 0o644)
		}
		if err != nil {
			fmt.Println("cannot write symbol table:", err)
			os.Exit(2)
		}
		return
	}

	seed := int64(0)
	if s := os.Getenv("VERIF_SEED"); s != "" {
		if v, err := strconv.ParseInt(s, 10, 64); err == nil {
			seed = v
		}
	}
	replayKey := ""
	if *replay != "" {
		b, err := os.ReadFile(*replay)
		if err != nil {
			fmt.Println("cannot read replay file:", err)
			os.Exit(2)
		}
		var v struct {
			Property   string   `json:"property"`
			Obligation core.Obl `json:"obligation"`
		}
		if err := json.Unmarshal(b, &v); err != nil {
			fmt.Println("bad replay file:", err)
			os.Exit(2)
		}
		*prop = v.Property
		replayKey = v.Obligation.Key
		*noEvidence = true
	}
	var ids []string
	if *prop == "all" {
		ids = props.IDs()
	} else {
		for _, s := range strings.Split(*prop, ",") {
			if s = strings.TrimSpace(s); s != "" {
				ids = append(ids, s)
			}
		}
	}
	if len(ids) == 0 {
		fmt.Println("no property given")
		os.Exit(2)
	}
	for _, id := range ids {
		if props.Get(id) == nil {
			fmt.Printf("unknown property %s\n", id)
			os.Exit(2)
		}
	}
	var overlay map[string][]byte
	if *overlayFile != "" {
		b, err := os.ReadFile(*overlayFile)
		if err != nil {
			fmt.Println("cannot read overlay:", err)
			os.Exit(2)
		}
		m := map[string]string{}
		if err := json.Unmarshal(b, &m); err != nil {
			fmt.Println("bad overlay:", err)
			os.Exit(2)
		}
		overlay = map[string][]byte{}
		for k, v := range m {
			overlay[k] = []byte(v)
		}
	}
	known, err := core.LoadKnown(filepath.Join(*verif, "known_findings.json"))
	if err != nil {
		fmt.Println("cannot read known_findings.json:", err)
		os.Exit(2)
	}

	t0 := time.Now()
	c, lerr := core.Load(*repo, *tier, overlay)
	if lerr == nil {
		c.Baseline = core.LoadBaseline(filepath.Join(*verif, "tables", "baseline_symbols.json"))
	}
	fail := false
	for _, id := range ids {
		t1 := time.Now()
		r := core.NewReport(id)
		if lerr != nil {
			r.Undecided("LOAD", "program", "-", lerr.Error())
			c = &core.Ctx{RepoDir: *repo}
		} else {
			c.ResetRenamesUsed()
			runOne(c, r, props.Get(id))
			for _, rn := range c.RenamesUsed() {
				r.Assume("RENAMED", rn, "-", "an anchored name is absent; the only new symbol of the same scope with the identical type is taken to be its new name (tables/baseline_symbols.json)")
			}
		}
		if replayKey != "" {
			var keep []core.Obl
			for _, o := range r.Obls {
				if o.Key == replayKey {
					keep = append(keep, o)
				}
			}
			if len(keep) == 0 {
				fmt.Printf("replay: obligation %q no longer exists on this tree (construct removed or discharged under another key)\n", replayKey)
			}
			r.Obls = keep
		}
		wall := time.Since(t1).Seconds()
		if len(ids) == 1 {
			wall = time.Since(t0).Seconds()
		}
		ev := filepath.Join(*verif, "evidence", id+".json")
		if *noEvidence {
			ev = ""
		}
		out := r.Finish(c, *tier, seed, wall, *verif, known, ev)
		if len(out.Violations) > 0 {
			fail = true
		}
	}
	if fail {
		os.Exit(1)
	}
}

func runOne(c *core.Ctx, r *core.Report, f props.CheckFunc) {
	defer func() {
		if e := recover(); e != nil {
			if ae, ok := e.(core.AnchorError); ok {
				r.Undecided("ANCHOR", ae.What, "-", "an anchored object no longer resolves; a passing verdict would be vacuous — re-confirm the table")
				return
			}
			r.Undecided("PANIC", fmt.Sprint(e), "-", string(debug.Stack()))
		}
	}()
	f(c, r)
}
