#!/usr/bin/env python3
"""tools/variants.py <ID> [--repo DIR] — the armed-ness pass of the thorough tier.

For the property <ID> every known property-breaking source change is applied to the CURRENT
sources of the repository *in memory* (go/packages overlay: no copy of the repository is made
and /repo is not touched) and the property's static check is run on the result:

  * seeded/<ID>-mN/patch.diff   — changes written by independent sub-agents (see DESIGN.md §6)
  * variants/<ID>/*.json        — hand-written single edits {file, old, new[, count], why}

A change that no longer applies to the current sources is "stale" and skipped.  A change that
applies must make the check report a violation ("reported"); otherwise the rule that should have
caught it is not armed on this tree ("missed").  Changes documented as outside the static
clauses carry expected_static = "missed" in their meta/spec and are listed separately.

This pass tests the checker, not siglens: it never changes the verdict on the property (the
exit status is always 0); its result is merged into evidence/<ID>.json under
coverage.variant_pass and printed as NOTE lines.
"""
import json, os, subprocess, sys, tempfile, shutil, glob

VERIF = os.path.dirname(os.path.dirname(os.path.abspath(__file__)))


def patched_files(repo, patch):
    """Apply a unified diff to private copies of the touched files; return {abs path: new content} or None."""
    touched = []
    for line in open(patch, errors="replace"):
        if line.startswith("+++ b/") or line.startswith("+++ a/"):
            touched.append(line[6:].strip())
    if not touched:
        return None
    tmp = tempfile.mkdtemp(prefix="slvariant_")
    try:
        for rel in touched:
            src = os.path.join(repo, rel)
            dst = os.path.join(tmp, rel)
            os.makedirs(os.path.dirname(dst), exist_ok=True)
            if os.path.exists(src):
                shutil.copy(src, dst)
        subprocess.run(["git", "init", "-q"], cwd=tmp, check=True, stdout=subprocess.DEVNULL, stderr=subprocess.DEVNULL)
        r = subprocess.run(["git", "apply", "--whitespace=nowarn", patch], cwd=tmp, stdout=subprocess.DEVNULL, stderr=subprocess.DEVNULL)
        if r.returncode != 0:
            return None
        out = {}
        for rel in touched:
            p = os.path.join(tmp, rel)
            if os.path.exists(p):
                out[os.path.join(repo, rel)] = open(p, errors="replace").read()
        return out
    finally:
        shutil.rmtree(tmp, ignore_errors=True)


def edited_file(repo, spec):
    p = os.path.join(repo, spec["file"])
    if not os.path.exists(p):
        return None
    s = open(p, errors="replace").read()
    if s.count(spec["old"]) < 1:
        return None
    if spec.get("count", 1) == 0:
        s2 = s.replace(spec["old"], spec["new"])
    else:
        s2 = s.replace(spec["old"], spec["new"], spec.get("count", 1))
    return {p: s2}


def run_check(repo, pid, overlay):
    tmp = tempfile.NamedTemporaryFile("w", suffix=".json", prefix="sloverlay_", delete=False)
    json.dump(overlay, tmp)
    tmp.close()
    try:
        env = dict(os.environ, GOFLAGS="-mod=mod", GOPROXY="off", GOSUMDB="off", GOTOOLCHAIN="local")
        env.pop("GOWORK", None)
        r = subprocess.run([os.path.join(VERIF, "engine", "slcheck"), "-repo", repo, "-verif", VERIF, "-prop", pid,
                            "-tier", "quick", "-no-evidence", "-overlay", tmp.name],
                           env=env, stdout=subprocess.PIPE, stderr=subprocess.STDOUT, text=True)
        lines = [l.strip() for l in r.stdout.splitlines()]
        viol = [l for l in lines if l.startswith("VIOLATION [")]
        cannot = [l for l in lines if l.startswith("CHECKER-CANNOT-DECIDE")]
        loadfail = any("load" in l.lower() and "error" in l.lower() for l in lines) and not viol
        return r.returncode, viol, cannot, loadfail, lines
    finally:
        os.unlink(tmp.name)


def main():
    pid = sys.argv[1]
    repo = "/repo"
    if "--repo" in sys.argv:
        repo = sys.argv[sys.argv.index("--repo") + 1]
    items = []
    for d in sorted(glob.glob(os.path.join(VERIF, "seeded", pid + "-m*"))):
        if os.path.exists(os.path.join(d, "SUPERSEDED")):
            continue
        meta = {}
        try:
            meta = json.load(open(os.path.join(d, "meta.json")))
        except Exception:
            pass
        items.append({"name": os.path.basename(d), "kind": "seeded", "patch": os.path.join(d, "patch.diff"),
                      "expected": meta.get("expected_static", "reported"), "reported_by": meta.get("reported_by")})
    for f in sorted(glob.glob(os.path.join(VERIF, "variants", pid, "*.diff"))):
        # reverse patches of the repairs made in /repo: each re-introduces a defect the check must report
        side = {}
        if os.path.exists(f[:-5] + ".meta.json"):
            side = json.load(open(f[:-5] + ".meta.json"))
        items.append({"name": os.path.basename(f)[:-5], "kind": "seeded", "patch": f,
                      "expected": side.get("expected_static", "reported"), "reported_by": side.get("reported_by")})
    for f in sorted(glob.glob(os.path.join(VERIF, "variants", pid, "*.json"))):
        if f.endswith(".meta.json"):
            continue
        spec = json.load(open(f))
        specs = spec if isinstance(spec, list) else [spec]
        for i, sp in enumerate(specs):
            items.append({"name": sp.get("name", os.path.basename(f)[:-5] + (f"#{i+1}" if len(specs) > 1 else "")), "kind": "edit", "spec": sp,
                          "expected": sp.get("expected_static", "reported")})
    res = {"tried": 0, "reported": [], "stale": [], "missed": [], "documented_not_covered": [], "does_not_typecheck": []}
    for it in items:
        ov = patched_files(repo, it["patch"]) if it["kind"] == "seeded" else edited_file(repo, it["spec"])
        if not ov:
            res["stale"].append(it["name"])
            continue
        res["tried"] += 1
        rc, viol, cannot, loadfail, lines = run_check(repo, pid, ov)
        if rc != 0 and viol:
            res["reported"].append({"variant": it["name"], "first_report": viol[0][:220]})
        elif rc != 0 and (cannot or not viol):
            # type-check failure or undecided: the variant did not yield a judged program
            why = (cannot[0] if cannot else next((l for l in lines if l), ""))[:220]
            res["does_not_typecheck"].append({"variant": it["name"], "why": why})
        elif it.get("reported_by"):
            # the change breaks this property through a discipline that another property's check owns
            rc2, viol2, _, _, _ = run_check(repo, it["reported_by"], ov)
            if rc2 != 0 and viol2:
                res.setdefault("reported_by_another_check", []).append({"variant": it["name"], "check": it["reported_by"], "first_report": viol2[0][:220]})
            else:
                res["missed"].append(it["name"])
                print(f"NOTE rule-not-armed property={pid} variant={it['name']} (expected to be reported by the check of {it['reported_by']})")
        elif it["expected"] == "missed":
            res["documented_not_covered"].append(it["name"])
        else:
            res["missed"].append(it["name"])
            print(f"NOTE rule-not-armed property={pid} variant={it['name']} (the change applies to the current tree and is not reported)")
    print(f"variant pass property={pid}: tried={res['tried']} reported={len(res['reported'])} stale={len(res['stale'])} "
          f"missed={len(res['missed'])} documented_not_covered={len(res['documented_not_covered'])} not_judged={len(res['does_not_typecheck'])}"
          + (f" reported_by_another_check={len(res['reported_by_another_check'])}" if res.get('reported_by_another_check') else ""))
    ev = os.path.join(VERIF, "evidence", pid + ".json")
    if os.path.exists(ev) and repo == "/repo":
        e = json.load(open(ev))
        e.setdefault("coverage", {})["variant_pass"] = res
        e["coverage"]["variant_pass_rule"] = ("every known property-breaking change that still applies to the current sources is applied in memory "
                                               "(source overlay) and must be reported by this check; this measures whether the rules are armed on the current tree and does not affect the verdict")
        json.dump(e, open(ev, "w"), indent=1)
    return 0


if __name__ == "__main__":
    sys.exit(main())
