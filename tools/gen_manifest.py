#!/usr/bin/env python3
"""Regenerates /verif/MANIFEST.json from the table below (kept in one place so the
manifest is always valid).  Usage: tools/gen_manifest.py"""
import json, os, sys
HERE = os.path.dirname(os.path.dirname(os.path.abspath(__file__)))

TRUST = ("Trusted base: go/types + go/ssa (golang.org/x/tools v0.29.0), the VTA/static call graphs as "
         "over-approximations of dispatch, and the frozen anchor/idiom tables in engine/internal/props. "
         "Decides only the structural clauses listed in DESIGN.md for this property; the behaviour itself is not decided.")

CLAIMED = {
 # id: (design section, technique, level text)
 "C07": ("§3 C07", "static analysis: SSA path/dominance ORDER rules, ATOMIC file-write idiom rule over backward path-origin slices, error-guard (GUARD) rules",
         "Every path of the flush/rotate/suffix code is checked for the orderings that crash recovery depends on (column data awaited before block summary before running .sfm; stats before .sfm; durable segmeta before rotated visibility before unrotated removal; suffix incremented and persisted before returned), every write-open of a recovery-critical file class is checked to be append-only or tmp+rename, and recovery is checked to adopt only successfully parsed .sfm files. All paths and all sites are covered, which no crash-sampling test can do; content equality after recovery is not decided."),
 "C10": ("§3 C10", "static analysis: SSA dominance GUARD rules on the WAL readers (CRC-before-decode), writer/reader framing TABLE agreement, ORDER persist-before-discard with call-graph ownership of every discard site, ATOMIC rewrite rule",
         "For every WAL block reader found in the wal package the check proves on all paths that the CRC of the buffer read is compared with the stored checksum before any payload-interpreting call or success return, that rejecting edges only log and return errors, that the size field is range-checked, and that cached decoded records are written only under the verified edge; the writer's framing constants and field order are compared with the readers'; every call site that may delete a WAL file is shown to be preceded by, and conditional on the success of, the call that persists its content. Replayed-content equality is not decided."),
 "C14": ("§3 C14", "static analysis: dominance GUARD on the retention predicate with backward value slices (latest-time field vs horizon), loop-exit analysis of the selection loop, ORDER rules on the delete sequence, ATOMIC rewrite rule",
         "Shows for all paths that a segment enters a victim map only on the accepting edge of latest-time <= horizon (horizon = now - retention, org-filtered candidates, every candidate examined), that durable meta entries are removed last, that shared tags-tree directories are subtracted after all marks, and that both meta files are rewritten via tmp+rename. The arithmetic of the volume/inode passes and post-pass searchability are not decided."),
 "C18": ("§3 C18", "static analysis: dominance GUARD on ChecksumFile.readChunkAt, type-filtered interprocedural value-flow closure of column-file descriptors (who-may-read), error-edge GUARD on every ChecksumFile.ReadAt caller, cache-key typestate rule, writer pairing",
         "Proves on all paths of readChunkAt that bytes of a checksummed chunk are returned only under the CRC-equal edge (CRC over exactly the bytes read, compared with the stored word, length bounded by the buffer, legacy branch only for legacy files); shows by value-flow closure that no descriptor that can hold a .csg file is read outside ChecksumFile; shows every reader decodes and marks a block as loaded only on the err==nil edge of the checksummed read; shows writeWip writes only through the chunk writer and flushes before success. Robustness of un-checksummed decoders is not decided."),
 "C11": ("§3 C11", "static analysis: forward may/must dataflow of held mutex classes over SSA with derived lock-wrapper summaries (PAIR), lock-order graph with transitive may-acquire summaries and SCC cycle detection (LOCKORDER), must-hold checking of guarded tables propagated up the static call graph (HELD), dominance ORDER on the rotation hand-over",
         "Covers every sync.Mutex/RWMutex operation of the ingest, metadata and query packages (all packages in the thorough tier) on all control-flow paths: released on every exit, never released unheld, never re-acquired; the class-level held->acquired relation is acyclic; every access of the shared segment tables happens under the table's lock in the accessor or all callers, and insertion into the open-store table is re-checked under the write lock; a segment is made visible as rotated before it leaves the unrotated table and both snapshots are read unrotated-first. Races on unguarded fields, channel/wait-group liveness and equality with a sequential execution are not decided."),
 "C17": ("§3 C17", "static analysis: path-based PAIR of query start/delete keyed by the qid's phi web with branch correlation, lock dataflow (PAIR/LOCKORDER) on the query tables, held-lock check at blocking channel sends, dominance-based ASSERT on the PromQL front end, producer/consumer TABLE of query states",
         "For every function that starts a query the check shows that no return is reachable from the start's success edge without DeleteQuery for the same qid variable (direct, deferred or delegated to a goroutine that deletes on every loop exit); the query-table locks are released on all exits and acquired in an acyclic order; no blocking channel send happens while the global running-queries lock may be held; PromQL AST type assertions are checked; every query state that is sent has a handler in the coordinator loop. Parser termination, timing, admission arithmetic and other panic sources are not decided."),
 "C19": ("§3 C19", "static analysis: whole-program forward taint (interprocedural, field-based with deep marks for decode targets, per-result return taint, context-sensitive inlining of pure string helpers) from request accessors to file-system sinks and storage path builders, with dominance-checked sanitisers (filepath.Base, membership lookups, validators, validate-by-callee summaries)",
         "Every string/byte value obtainable from a request (fasthttp accessors, multipart file names, websocket reads and everything decoded from them) is followed through calls, fields, containers and closures of the whole repository; the check shows that none reaches the path operand of an os/ioutil file operation or the name parameter of a storage path builder without a sanitiser whose accepting edge dominates the use, and that percent-decoded router parameters are treated as arbitrary bytes. This covers every handler and every sink at once, including flows through shared helpers that no test exercises. Not decided: flows through map keys in long-lived state, the generated parsers' interface stacks, the Kibana-compat store, symlinks."),
 "C08": ("§3 C08", "static analysis: sound interval analysis over SSA (constants, conversion type ranges, phi joins, refinement by dominating comparisons incl. short-circuit phis) for every narrow bit-field write (BOUND), writer/reader TABLE agreement of prefix codes and field widths, loop-path analysis of scratch-buffer Reset (LIVE)",
         "Proves for all values that each narrow bit field written by the Gorilla compressor receives a value that fits (or lists the caller contract it relies on), that every signed payload lies in the asymmetric range the reader decodes, that prefix codes, payload widths and header widths agree between compressor and decompressor, and that the per-query scratch buffer is reset on every path to the next series. Bit-exact round trip as an outcome, TSID hashing and the series-file layout are not decided."),
 "C15": ("§3 C15", "static analysis: loop-carried value analysis on the SSA phi web of HandleBulkBody (LIVE), loop-path analysis of item stores (PAIR), phi-edge analysis of the errors flag per failure branch (DEPENDS), error-flow of the store call, dominance of the size gate, release-site pairing",
         "Shows for every path through the bulk action loop that no status-deciding value is left over from a previous action, that every action stores exactly one response item, that each failure branch turns the errors flag on, that document parsing is behind the record-size gate, that pooled events are released once, and reports that a failed store call only reaches the log. Searchability of acknowledged items is not decided."),
 "C16": ("§3 C16", "static analysis: dominance/phi-edge analysis of every timestamp store next to a timestamp extraction (fallback discipline), backward value slices of EncodeDatapoint timestamps and GetNewPLE keys (DEPENDS), loop-header phi analysis of the OTLP item loops (LIVE)",
         "Shows on all paths that a time the event carries is never replaced by a fallback (stores of the extracted time only where non-zero, fallbacks only where the extraction or the current time is zero), that the OTLP log handler takes the event time from the record, that no metrics datapoint timestamp derives from a current-time source, that per-item attributes are not carried from one OTLP resource to the next, and that every protocol handler parses with the configured timestamp key. Attribute completeness and timestamp unit/spelling recognition are not decided."),
 "C13": ("§3 C13", "static analysis: control-dependence GUARD of every org-tagged enumeration on the comparison with the caller's organisation, key-origin check of per-organisation maps, backward slices of the org argument of segment selection, path rule tying alias-file changes to the in-memory alias table, KEYSEP lint of the key-building functions",
         "Finds every function that takes an organisation id and loops over elements carrying an organisation field and shows that a comparison of the two exists and governs every data-carrying effect of the loop; shows per-organisation maps are keyed by the organisation parameter, that segment selection never receives a constant organisation, that alias changes reach the in-memory table on every success path, and that stream ids / segment keys cannot collide across (index, organisation) pairs by unseparated concatenation. Wildcard/alias expansion semantics and tenant-blind deletes by index name are not decided."),
 "C02": ("§3 C02", "static analysis: syntax-to-formula reduction of pure comparison predicates and exhaustive truth-table comparison with their specification over all weak orderings of the operands (canonical-form comparison, no execution), enum exhaustiveness, loop-exit analysis of the dictionary scans",
         "Every arm of the numeric record comparison (3 representations x 6 operators), the time-range membership/overlap predicates and the block range-index pruning tables are compared with their mathematical meaning on every ordering of their operands, which is complete because these predicates touch their operands only through comparisons; the dictionary-block search is shown to examine every word. Literal typing, wildcard translation, boolean composition and where-stage agreement are not decided."),
 "C03": ("§3 C03", "static analysis: truth-table soundness check of range-index pruning over all orderings, truth-table implication check of the fast-path gate formulas over all valuations, backward slice of the gate's enclosure argument, dominance ORDER of the rotation hand-over",
         "Shows that block pruning accepts every block that can contain a match for each operator (also after refactoring into a generic helper), that full-enclosure means what its name says, that the SST and agile-tree fast paths can only be chosen for match-all queries over fully enclosed segments without non-ingest statistics, and that hand-over between open and rotated segments keeps every segment visible. Equality of results across layouts, bloom/PQMR contents and parallel merge are not decided."),
 "C04": ("§3 C04", "static analysis: forward dataflow of tagged-union tag knowledge per access path over the SSA CFG (TAGUNION), truth-table implication check of the SST gate formula, writer/reader version-byte agreement",
         "For every function that tests the tag of a NumTypeEnclosure (the running sum/min/max representation) the check shows on all paths that each member is read only where the tag is known to select it, so merges between integer and float partial aggregates cannot drop the accumulated part; the pre-computed statistics fast path is shown to be gated on the conditions under which it is exact. Numeric results, bucket boundaries and per-measure slot bookkeeping are not decided."),
 "C05": ("§3 C05", "static analysis: collection of every comparator function value from the sort/merge call sites and static call-graph reachability to tolerance-equality functions (recognised by their |a-b| < eps shape), use-site analysis of the raw end time in Searcher.fetchRRCs (clamp operands / sort-mode dominance)",
         "All 90+ ordering functions of the repository are collected from their call sites and shown not to reach a tolerance equality, the structural cause of out-of-order neighbours for close values; the two sort paths are shown to share one comparison; the newest-first streaming search is shown to release records only up to the segment cut-off on every time-ordered path. The merge of overlapping blocks, limits and pagination as outcomes are not decided."),
 "C06": ("§3 C06", "static analysis: receiver-rooted field read/write sets over the static call cone of Process/Rewind for every implementation of the processor interface (found with types.Implements), categories derived from GetFinalResultIfExists and Rewind, path rule on the CachedStream invariant, structural comparison of constructor flag expressions",
         "For all 27 pipeline processors the check shows that every piece of cross-batch state kept by Process is re-initialised by Rewind (or the command replays a cached final result / is the two-pass accumulator itself), which is the precondition for a two-pass command downstream to see the same input twice; that leftover rows handed back to a cached stream un-exhaust it; and that two-pass commands are constructed as bottlenecks. The commands' semantics and chunking independence as an outcome are not decided."),
 "C20": ("§3 C20", "static analysis: truth-table check of the alert condition arms, constant-leaf/edge-condition analysis of the state chosen in handleAlertCondition, structural window rule and non-zero bound on the history query, dominance guards on notification sends, forward path PERSIST rule over the mirrored tables of the keyed stores, file-name template agreement, alias/index role (qualifier) inference, loader coverage of the default tenant",
         "The alert condition switch is compared with its meaning on every ordering of value and threshold; the state recorded after an evaluation is shown to be Normal/Pending/Firing exactly on the edges where the condition outcome and the window test say so, with notifications attempted only for Firing and Normal and gated by cool-down and silence tests; the window test is shown to read exactly the newest N-1 rows of the evaluated alert with a non-zero limit and to answer true only after scanning all of them. For saved queries, dashboards, folders and index aliases every in-memory mutation is shown to reach the store's file before success on all paths, writes replace whole objects, readers and writers agree on file names, alias and index names are never exchanged, and the start-up loader covers the default tenant. Outcomes over real histories, clocks, sqlite behaviour and content equality after restart are not decided."),
}

NOT_APPLICABLE = {
 "C09": "PromQL answers are functions of run-time label sets and sample values held in string-keyed maps; no ordering, pairing, ownership or table-agreement clause of that code is a necessary condition of a correct answer that a sound static rule can decide (see DESIGN.md §3 C09).",
 "C12": "The trace views are aggregations over query results keyed by run-time span/trace ids and their loops are bounded by result sizes; there is no structural clause to decide statically (see DESIGN.md §3 C12).",
}

PENDING = "structural checker for this property is not built yet in this revision of /verif (see DESIGN.md §3 for the planned clauses); it is therefore not claimed"

def main():
    ids = [json.loads(l)["id"] for l in open(os.path.join(HERE, "properties.jsonl"))]
    checks, na = [], []
    for pid in ids:
        if pid in CLAIMED:
            sec, tech, text = CLAIMED[pid]
            checks.append({
                "property_id": pid,
                "quick_cmd": f"bin/check {pid} quick",
                "thorough_cmd": f"bin/check {pid} thorough",
                "evidence_file": f"/verif/evidence/{pid}.json",
                "replay_cmd_template": "bin/check --replay {path}",
                "engine": "slcheck",
                "level_claimed": {"category": "other", "text": text, "design_ref": sec},
                "level_note": TRUST,
                "technique": tech,
            })
        else:
            na.append({"property_id": pid, "reason": NOT_APPLICABLE.get(pid, PENDING)})
    m = {
        "version": 1,
        "setup_cmd": "cd /verif/engine && GOFLAGS=-mod=vendor GOPROXY=off GOTOOLCHAIN=local go build -o /verif/engine/slcheck ./cmd/slcheck",
        "hooks": {
            "guard": "verif",
            "enable": "none needed: static analysis reads the sources; no instrumentation is compiled into siglens",
            "baseline_off_cmd": "cd /repo && GOFLAGS=-mod=mod GOPROXY=off GOSUMDB=off GOTOOLCHAIN=local go test -vet=off -count=1 -timeout 25m ./...",
            "source_commits": [],
            "add_only": True,
        },
        "engines": [{
            "name": "slcheck", "path": "/verif/engine",
            "serves_properties": sorted(CLAIMED),
            "kind_free_text": "repository-specific static analyser (go/packages + go/types + go/ssa + call graphs): ORDER, PAIR, LOCKORDER, GUARD, TAINT, TABLE, SIBLING, BOUND, ATOMIC rules instantiated from per-property anchor tables",
        }],
        "checks": checks,
        "not_applicable": na,
        "notes": "All checks are static: they load and type-check /repo's current working tree on every run and execute no siglens code. known_findings.json lists confirmed defects that are recorded rather than repaired. See DESIGN.md.",
    }
    json.dump(m, open(os.path.join(HERE, "MANIFEST.json"), "w"), indent=1)
    print("wrote MANIFEST.json:", len(checks), "checks,", len(na), "not applicable")

if __name__ == "__main__":
    main()
