#!/usr/bin/env python3
"""Regenerates /verif/MANIFEST.json from the table below (kept in one place so the
manifest is always valid).  Usage: tools/gen_manifest.py"""
import json, os, sys
HERE = os.path.dirname(os.path.dirname(os.path.abspath(__file__)))

TRUST = ("Trusted base: go/types + go/ssa (golang.org/x/tools v0.29.0), the VTA/static call graphs as "
         "over-approximations of dispatch, and the frozen anchor/idiom tables in engine/internal/props. "
         "Decides only the structural clauses listed in DESIGN.md for this property; the behaviour itself is not decided.")

CLAIMED = {
 # id: (design section, technique, level text)
 "C07": ("§3 C07", "static analysis: SSA path/dominance ORDER rules, ATOMIC file-write idiom rule over backward path-origin slices, error-guard (GUARD) rules",
         "Every path of the flush/rotate/suffix code is checked for the orderings that crash recovery depends on (column data awaited before block summary before running .sfm; stats before .sfm; durable segmeta before rotated visibility before unrotated removal; suffix incremented and persisted before returned), every write-open of a recovery-critical file class is checked to be append-only or tmp+rename, and recovery is checked to adopt only successfully parsed .sfm files. All paths and all sites are covered, which no crash-sampling test can do; content equality after recovery is not decided."),
}

NOT_APPLICABLE = {
 "C09": "PromQL answers are functions of run-time label sets and sample values held in string-keyed maps; no ordering, pairing, ownership or table-agreement clause of that code is a necessary condition of a correct answer that a sound static rule can decide (see DESIGN.md §3 C09).",
 "C12": "The trace views are aggregations over query results keyed by run-time span/trace ids and their loops are bounded by result sizes; there is no structural clause to decide statically (see DESIGN.md §3 C12).",
}

PENDING = "structural checker for this property is not built yet in this revision of /verif (see DESIGN.md §3 for the planned clauses); it is therefore not claimed"

def main():
    ids = [json.loads(l)["id"] for l in open(os.path.join(HERE, "properties.jsonl"))]
    checks, na = [], []
    for pid in ids:
        if pid in CLAIMED:
            sec, tech, text = CLAIMED[pid]
            checks.append({
                "property_id": pid,
                "quick_cmd": f"bin/check {pid} quick",
                "thorough_cmd": f"bin/check {pid} thorough",
                "evidence_file": f"/verif/evidence/{pid}.json",
                "replay_cmd_template": "bin/check --replay {path}",
                "engine": "slcheck",
                "level_claimed": {"category": "other", "text": text, "design_ref": sec},
                "level_note": TRUST,
                "technique": tech,
            })
        else:
            na.append({"property_id": pid, "reason": NOT_APPLICABLE.get(pid, PENDING)})
    m = {
        "version": 1,
        "setup_cmd": "cd /verif/engine && GOFLAGS=-mod=vendor GOPROXY=off GOTOOLCHAIN=local go build -o /verif/engine/slcheck ./cmd/slcheck",
        "hooks": {
            "guard": "verif",
            "enable": "none needed: static analysis reads the sources; no instrumentation is compiled into siglens",
            "baseline_off_cmd": "cd /repo && GOFLAGS=-mod=mod GOPROXY=off GOSUMDB=off GOTOOLCHAIN=local go test -vet=off -count=1 -timeout 25m ./...",
            "source_commits": [],
            "add_only": True,
        },
        "engines": [{
            "name": "slcheck", "path": "/verif/engine",
            "serves_properties": sorted(CLAIMED),
            "kind_free_text": "repository-specific static analyser (go/packages + go/types + go/ssa + call graphs): ORDER, PAIR, LOCKORDER, GUARD, TAINT, TABLE, SIBLING, BOUND, ATOMIC rules instantiated from per-property anchor tables",
        }],
        "checks": checks,
        "not_applicable": na,
        "notes": "All checks are static: they load and type-check /repo's current working tree on every run and execute no siglens code. known_findings.json lists confirmed defects that are recorded rather than repaired. See DESIGN.md.",
    }
    json.dump(m, open(os.path.join(HERE, "MANIFEST.json"), "w"), indent=1)
    print("wrote MANIFEST.json:", len(checks), "checks,", len(na), "not applicable")

if __name__ == "__main__":
    main()
