#!/usr/bin/env python3
"""tools/store_seed.py <ID> <mN> <srcdir> <demo-dest-dir> [note]
Copies a confirmed seeded change into /verif/seeded/<ID>-<mN>/ (patch.diff, demo, meta.json)."""
import json, os, shutil, sys, glob, re
ID, M, SRC, DEST = sys.argv[1:5]
note = sys.argv[5] if len(sys.argv) > 5 else ""
conf = json.load(open(os.path.join(SRC, "confirm.json")))
out = f"/verif/seeded/{ID}-{M}"
os.makedirs(out, exist_ok=True)
shutil.copy(os.path.join(SRC, "patch.diff"), out)
demos = glob.glob(os.path.join(SRC, "zz_seed_*_test.go"))
for d in demos:
    shutil.copy(d, out)
notes = open(os.path.join(SRC, "notes.md")).read() if os.path.exists(os.path.join(SRC, "notes.md")) else ""
shutil.copy(os.path.join(SRC, "notes.md"), os.path.join(out, "notes.md"))
prop = next(json.loads(l) for l in open("/verif/properties.jsonl") if json.loads(l)["id"] == ID)
meta = {
    "property": ID,
    "property_title": prop["title"],
    "variant": M,
    "origin": "written by an independent sub-agent that saw only the property record and a scratch worktree of /repo" + (" (round 3: it was also told which functions earlier rounds had changed and asked to use different sites and mechanisms)" if M in ("m5", "m6", "m5p") else (" (round 4: it was also told the earlier changes and asked to stay on the anchored mechanisms with a defect of a different kind)" if M in ("m7", "m8") else (" (round 7: a refactoring that moves code across a function boundary, with a property-breaking slip made while the code was moved)" if M in ("m9", "m10") else (" (round 11: a small feature or maintenance commit - counters, a knob, a ...With variant, validation, a fast path, buffer reuse, resource clean-up - with a property-breaking slip made while it was added)" if M in ("m11", "m12") else (" (round 14: a small realistic maintenance change - fast path, cache, refactoring across a function boundary, clean-up - that needs a specific input, sequence or interleaving to manifest)" if M == "m13" else ""))))),
    "patch": "patch.diff (git apply at the repository root)",
    "demonstration": [os.path.basename(d) for d in demos],
    "demonstration_placement": DEST,
    "demonstration_cmd": f"go test -vet=off -count=1 -run '(?i)seed' ./{DEST}/",
    "needs_to_manifest": "see notes.md (written by the author of the change)",
    "confirmed_by": "tools/confirm_seed.sh in a scratch worktree of /repo: patch applies, go build ./... and test compilation succeed, the whole existing suite passes with the change, the demonstration fails with the change and passes without it",
    "confirmation": conf,
    "confirmation_note": note,
}
json.dump(meta, open(os.path.join(out, "meta.json"), "w"), indent=1)
print("stored", out)
