#!/usr/bin/env python3
"""Builds /verif/DESIGN.md from docs/design_head.md, docs/design_s0.md, the generated per-property
section (tools/gen_design_sections.py, from evidence/*.json) and docs/design_tail.md."""
import json, os, subprocess, glob, re
V = os.path.dirname(os.path.dirname(os.path.abspath(__file__)))
head = open(os.path.join(V, "docs/design_head.md")).read()
s0 = open(os.path.join(V, "docs/design_s0.md")).read()
tail = open(os.path.join(V, "docs/design_tail.md")).read()
s3 = subprocess.run(["python3", os.path.join(V, "tools/gen_design_sections.py")], stdout=subprocess.PIPE, text=True, check=True).stdout
props = [json.loads(l) for l in open(os.path.join(V, "properties.jsonl"))]
man = json.load(open(os.path.join(V, "MANIFEST.json")))
claimed = {c["property_id"] for c in man["checks"]}
known = json.load(open(os.path.join(V, "known_findings.json")))
results = json.load(open(os.path.join(V, "seeded/RESULTS.json")))

# summary table
rows = ["| Property | Status | Rules (obligations) | Findings fixed / open | Known breaking changes reported / tried |", "|---|---|---|---|---|"]
for p in props:
    pid = p["id"]
    if pid not in claimed:
        rows.append(f"| {pid} {p['title']} | not applicable | — | — | — |")
        continue
    ev = json.load(open(os.path.join(V, "evidence", pid + ".json")))["coverage"]
    rules = ", ".join(f"{k} {v}" for k, v in sorted(ev["obligations_by_rule"].items()) if k != "FLOOR")
    fx = len({k["commit"] for k in known if k["property"] == pid and k["status"] == "fixed"})
    op = len([k for k in known if k["property"] == pid and k["status"] == "open"])
    vp = ev.get("variant_pass", {})
    vtxt = f"{len(vp.get('reported', []))} / {vp.get('tried', 0)}" if vp else "—"
    if vp and vp.get("documented_not_covered"):
        vtxt += f" ({len(vp['documented_not_covered'])} documented as not covered)"
    if vp and vp.get("reported_by_another_check"):
        vtxt += f" (+{len(vp['reported_by_another_check'])} reported by the check of {', '.join(sorted({x['check'] for x in vp['reported_by_another_check']}))})"
    if vp and vp.get("does_not_typecheck"):
        vtxt += f" ({len(vp['does_not_typecheck'])} only as cannot-decide)"
    rows.append(f"| {pid} {p['title']} | claimed (other) | {rules} | {fx} commit(s) / {op} | {vtxt} |")
summary = "\n".join(rows)

# fixed / open lists
log = subprocess.run(["git", "-C", "/repo", "log", "--format=%h %s"], stdout=subprocess.PIPE, text=True).stdout.splitlines()
subj = {l.split()[0]: l.split(" ", 1)[1] for l in log if l}
bycommit = {}
for k in known:
    if k["status"] == "fixed":
        bycommit.setdefault(k["commit"], []).append(k)
fixed_lines = []
for c, ks in bycommit.items():
    propsx = sorted({k["property"] for k in ks})
    fixed_lines.append(f"* `{c}` *{subj.get(c, '')}* — {', '.join(propsx)}: {ks[0]['what']}"
                       + (f" (+{len(ks)-1} more obligation(s) of the same defect)" if len(ks) > 1 else ""))
open_lines = []
for k in known:
    if k["status"] == "open":
        open_lines.append(f"* **{k['property']}** `{k['key']}` — {k['what']}")

# seeded table
srows = ["| Change | Round | Site (author's title) | First result | Action | Now |", "|---|---|---|---|---|---|"]
now = {}
for f in glob.glob(os.path.join(V, "evidence", "*.json")):
    vp = json.load(open(f))["coverage"].get("variant_pass")
    if not vp:
        continue
    for x in vp["reported"]:
        now[x["variant"]] = "reported"
    for x in vp["documented_not_covered"]:
        now[x] = "not reported (documented)"
    for x in vp["missed"]:
        now[x] = "NOT reported"
    for x in vp["does_not_typecheck"]:
        now[x["variant"]] = "reported as checker-cannot-decide"
    for x in vp["stale"]:
        now[x] = "no longer applies"
for d in sorted(glob.glob(os.path.join(V, "seeded", "C*-m*"))):
    name = os.path.basename(d)
    if os.path.exists(os.path.join(d, "SUPERSEDED")):
        continue
    title = ""
    try:
        for l in open(os.path.join(d, "notes.md"), errors="replace"):
            if l.startswith("#"):
                title = re.sub(r"^#+\s*", "", l.strip())
                title = re.sub(r"^C\d\d\s*/\s*m\d\s*[—–-]+\s*", "", title)
                break
    except Exception:
        pass
    base = name[:-1] if name.endswith("p") else name
    res = results.get(name) or results.get(base) or {}
    rnd = res.get("round", 2 if name[-1] in "34" or name.endswith(("3p", "4p")) else 1)
    first = res.get("first", "reported" if rnd == 1 else "")
    if rnd == 1 and not res:
        first = "reported (rules built with round 1 at hand)"
    srows.append(f"| {name} | {rnd} | {title[:110]} | {first} | {res.get('action','')} | {now.get(name,'?')} |")
seeded = "\n".join(srows)

out = head.replace("@@S0@@", s0) + "\n## 3. Per property\n\nGenerated from `evidence/*.json` (last thorough run), `known_findings.json` and `MANIFEST.json`.\n\n" + s3 + tail
out = out.replace("@@SUMMARY@@", summary).replace("@@FIXED@@", "\n".join(fixed_lines)).replace("@@OPEN@@", "\n".join(open_lines)).replace("@@SEEDED@@", seeded)
open(os.path.join(V, "DESIGN.md"), "w").write(out)
print("wrote DESIGN.md:", len(out.splitlines()), "lines")
