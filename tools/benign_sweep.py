#!/usr/bin/env python3
"""tools/benign_sweep.py — applies each behaviour-preserving edit of variants/benign/*.json to the current sources
in memory and runs ALL checks on the result; any VIOLATION is a false alarm of the machinery."""
import json, os, subprocess, sys, tempfile, glob
V = os.path.dirname(os.path.dirname(os.path.abspath(__file__)))
repo = "/repo"
bad = 0
specs = []
for f in sorted(glob.glob(os.path.join(V, "variants", "benign", "*.json"))):
    specs += json.load(open(f))
# behaviour-preserving refactorings written by independent authors (DESIGN.md §6, round 5): one diff each
for f in sorted(glob.glob(os.path.join(V, "variants", "benign", "refactors", "*.diff"))):
    specs.append({"name": "refactor:" + os.path.basename(f)[:-5], "patch": os.path.relpath(f, V)})
# multi-symbol renames of anchored functions, methods, variables and fields (rename resolution, DESIGN.md §1)
for f in sorted(glob.glob(os.path.join(V, "variants", "benign", "renames", "*.diff"))):
    specs.append({"name": "rename:" + os.path.basename(f)[:-5], "patch": os.path.relpath(f, V)})
# small correct extensions (counters, knobs with the old default, validation, fast paths) by independent authors (round 9)
for f in sorted(glob.glob(os.path.join(V, "variants", "benign", "extensions", "*.diff"))):
    specs.append({"name": "extension:" + os.path.basename(f)[:-5], "patch": os.path.relpath(f, V)})
# round 10: two refactorings and two extensions per property at the anchored functions the earlier rounds had not visited
for f in sorted(glob.glob(os.path.join(V, "variants", "benign", "round10", "*.diff"))):
    specs.append({"name": "round10:" + os.path.basename(f)[:-5], "patch": os.path.relpath(f, V)})
# round 13: refactorings aimed at the sites of the clauses added in rounds 11 and 12
for f in sorted(glob.glob(os.path.join(V, "variants", "benign", "round13", "*.diff"))):
    specs.append({"name": "round13:" + os.path.basename(f)[:-5], "patch": os.path.relpath(f, V)})
only = sys.argv[1:]
for _once in [0]:
    for sp in specs:
        if only and not any(o in sp["name"] for o in only):
            continue
        if sp.get("skip"):
            continue
        if os.environ.get("SWEEP_HAND") and sp.get("patch"):
            continue  # SWEEP_HAND=1: only the hand-written in-memory edits of variants/benign/*.json
        overlay, stale = {}, False
        if sp.get("patch"):
            sys.path.insert(0, os.path.join(V, "tools"))
            import variants as _v
            ov = _v.patched_files(repo, os.path.join(V, sp["patch"]))
            if not ov:
                print(f"{sp['name']}: STALE (patch does not apply)")
                continue
            overlay = ov
        for ed in ([] if sp.get("patch") else sp.get("edits", [sp])):
            p = os.path.join(repo, ed["file"])
            s = overlay.get(p) or open(p).read()
            if ed["old"] not in s:
                stale = True
                break
            overlay[p] = s.replace(ed["old"], ed["new"]) if ed.get("count", 1) == 0 else s.replace(ed["old"], ed["new"], 1)
        if stale:
            print(f"{sp['name']}: STALE (text not found)")
            continue
        tmp = tempfile.NamedTemporaryFile("w", suffix=".json", delete=False)
        json.dump(overlay, tmp); tmp.close()
        env = dict(os.environ, GOFLAGS="-mod=mod", GOPROXY="off", GOSUMDB="off", GOTOOLCHAIN="local"); env.pop("GOWORK", None)
        r = subprocess.run([os.path.join(V, "engine/slcheck"), "-repo", repo, "-verif", V, "-prop", os.environ.get("SWEEP_PROPS", "all"), "-tier", "quick", "-no-evidence", "-overlay", tmp.name],
                           env=env, stdout=subprocess.PIPE, stderr=subprocess.STDOUT, text=True)
        os.unlink(tmp.name)
        viol = [l.strip()[:200] for l in r.stdout.splitlines() if l.strip().startswith(("VIOLATION [", "CHECKER-CANNOT-DECIDE"))]
        if viol:
            bad += 1
            print(f"{sp['name']}: FALSE ALARM")
            for v in viol[:4]:
                print("   ", v)
        else:
            print(f"{sp['name']}: silent")
sys.exit(1 if bad else 0)
