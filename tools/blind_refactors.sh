#!/bin/bash
# tools/blind_refactors.sh <dir-with-<ID>/rN/patch.diff> <ID>...  — apply each behaviour-preserving
# refactoring to a scratch worktree of /repo (BLIND_REPO, default /repo itself), run ALL checks, undo.
# Any report is a false alarm of the machinery.
export GOFLAGS=-mod=mod GOPROXY=off GOSUMDB=off GOTOOLCHAIN=local; unset GOWORK
R=${BLIND_REPO:-/repo}
base=$1; shift
for id in "$@"; do for r in r1 r2 r3 r4; do
  p=$base/$id/$r/patch.diff
  [ -f $p ] || { echo "$id-$r: no patch"; continue; }
  git -C $R apply $p 2>/dev/null || { echo "$id-$r: does not apply"; continue; }
  out=$(/verif/engine/slcheck -repo $R -verif /verif -prop all -tier quick -no-evidence 2>&1)
  git -C $R checkout -- . ; git -C $R clean -fdq
  n=$(echo "$out" | grep -c "VIOLATION\|CANNOT-DECIDE\|load failed\|panic")
  echo "$id-$r: alarms=$n"
  [ $n -gt 0 ] && echo "$out" | grep "VIOLATION \[\|CANNOT\|panic" | cut -c1-420 | head -6
done; done
