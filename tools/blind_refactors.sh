#!/bin/bash
# tools/blind_refactors.sh <dir-with-<ID>/rN/patch.diff> <ID>...  — apply each behaviour-preserving
# refactoring to /repo, run ALL checks, undo.  Any report is a false alarm of the machinery.
base=$1; shift
for id in "$@"; do for r in r1 r2 r3 r4; do
  p=$base/$id/$r/patch.diff
  [ -f $p ] || { echo "$id-$r: no patch"; continue; }
  git -C /repo apply $p 2>/dev/null || { echo "$id-$r: does not apply"; continue; }
  out=$(/verif/engine/slcheck -repo /repo -verif /verif -prop all -tier quick -no-evidence 2>&1)
  git -C /repo checkout -- . ; git -C /repo clean -fdq
  n=$(echo "$out" | grep -c "VIOLATION\|CANNOT-DECIDE\|load failed\|panic")
  echo "$id-$r: alarms=$n"
  [ $n -gt 0 ] && echo "$out" | grep "VIOLATION\|CANNOT\|panic" | head -6
done; done
