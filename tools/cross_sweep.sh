#!/bin/bash
# tools/cross_sweep.sh [ID-mN ...] — applies each seeded change to /repo, runs EVERY claimed check on it in one
# load, and prints which properties report it (own property and others), then reverts /repo.
# Used to find false alarms of one property's rules on changes that only break another property.
cd /verif
if [ -n "$(git -C /repo status --porcelain)" ]; then echo "/repo is not clean"; exit 2; fi
export GOFLAGS=-mod=mod GOPROXY=off GOSUMDB=off GOTOOLCHAIN=local; unset GOWORK
sel="$@"; [ -z "$sel" ] && sel=$(for d in $(ls seeded | grep -- "-m"); do [ -e seeded/$d/SUPERSEDED ] || echo $d; done)
for s in $sel; do
  id=${s%%-*}
  if ! git -C /repo apply --check /verif/seeded/$s/patch.diff 2>/dev/null; then echo -e "$s\tPATCH-DOES-NOT-APPLY"; continue; fi
  git -C /repo apply /verif/seeded/$s/patch.diff
  out=$(engine/slcheck -repo /repo -verif /verif -prop all -tier quick -no-evidence 2>&1)
  props=$(echo "$out" | grep '^VIOLATION property=' | sed 's/VIOLATION property=\([A-Z0-9]*\).*/\1/' | sort | uniq -c | awk '{printf "%s(%s) ", $2, $1}')
  echo -e "$s\t$props"
  echo "$out" | grep '^  VIOLATION\|^  CHECKER' | grep -v "\[$id\]" > /tmp/cross_$s.txt
  git -C /repo checkout -- . ; git -C /repo clean -fdq
done
