#!/usr/bin/env python3
"""Prints the per-property part of DESIGN.md (§3) from the current evidence files, known_findings.json,
MANIFEST.json and the variant pass results.  Run after `bin/check <ID> thorough` for every property."""
import json, os, textwrap, sys
V = os.path.dirname(os.path.dirname(os.path.abspath(__file__)))
props = [json.loads(l) for l in open(os.path.join(V, "properties.jsonl"))]
man = json.load(open(os.path.join(V, "MANIFEST.json")))
checks = {c["property_id"]: c for c in man["checks"]}
na = {n["property_id"]: n["reason"] for n in man["not_applicable"]}
known = json.load(open(os.path.join(V, "known_findings.json")))
def wrap(s, ind="  "):
    return "\n".join(textwrap.wrap(s, 98, initial_indent=ind, subsequent_indent=ind))
for p in props:
    pid = p["id"]
    if pid in na:
        print(f"### {pid}  {p['title']} — **not applicable**\n")
        print(wrap(na[pid], "") + "\n")
        continue
    ev = json.load(open(os.path.join(V, "evidence", pid + ".json")))
    cov = ev["coverage"]
    print(f"### {pid}  {p['title']} — *claimed, level `other`*\n")
    print("* **Decided.**")
    print(wrap(cov["explanation"]))
    print("* **Not decided.**")
    print(wrap(cov["not_covered"]))
    rules = ", ".join(f"{k} {v}" for k, v in sorted(cov["obligations_by_rule"].items()))
    print(f"* **On the current tree.** {cov['obligations']} obligations, {cov['discharged']} discharged "
          f"({rules}); instance counts: " + "; ".join(f"{k} = {v}" for k, v in sorted(cov["measured"].items())) + ".")
    ass = [a for a in ev["assumptions"][1:]]
    if ass:
        print("* **Named assumptions / exceptions** (listed in the evidence, not counted as discharged):")
        for a in ass:
            print(wrap("- " + a, "  ").replace("\n  ", "\n    "))
    kf = [k for k in known if k["property"] == pid]
    if kf:
        print("* **Findings.**")
        for k in kf:
            st = "open — printed as KNOWN-FINDING" if k["status"] == "open" else f"fixed by /repo commit {k.get('commit','')}"
            print(wrap(f"- `{k['key']}` ({st}): {k['what']}", "  ").replace("\n  ", "\n    "))
    vp = cov.get("variant_pass")
    if vp:
        rep = ", ".join(x["variant"] for x in vp["reported"]) or "none"
        line = f"* **Known property-breaking changes (variant pass).** tried {vp['tried']}; reported: {rep}"
        if vp["documented_not_covered"]:
            line += "; outside the decided clauses (not reported, as documented): " + ", ".join(vp["documented_not_covered"])
        if vp["missed"]:
            line += "; NOT reported although expected: " + ", ".join(vp["missed"])
        if vp["does_not_typecheck"]:
            line += "; reported only as checker-cannot-decide: " + ", ".join(x["variant"] for x in vp["does_not_typecheck"])
        if vp["stale"]:
            line += "; no longer apply to this tree: " + ", ".join(vp["stale"])
        print(wrap(line + ".", "").replace("\n", "\n  "))
    print()
