#!/bin/bash
# tools/blind_seeds.sh <dir-with-<ID>/mN/patch.diff> <mN,mN> <ID>... — apply each property-breaking change to a
# scratch worktree of /repo (BLIND_REPO), run ALL checks, print which properties report it.
export GOFLAGS=-mod=mod GOPROXY=off GOSUMDB=off GOTOOLCHAIN=local; unset GOWORK
R=${BLIND_REPO:-/tmp/blind}
base=$1; ms=$2; shift; shift
for id in "$@"; do for m in ${ms//,/ }; do
  p=$base/$id/$m/patch.diff
  [ -f $p ] || { echo "$id-$m: no patch"; continue; }
  git -C $R apply $p 2>/dev/null || { echo "$id-$m: does not apply"; continue; }
  out=$(/verif/engine/slcheck -repo $R -verif /verif -prop all -tier quick -no-evidence 2>&1)
  git -C $R checkout -- . ; git -C $R clean -fdq
  props=$(echo "$out" | grep '^VIOLATION property=' | sed 's/VIOLATION property=\([A-Z0-9]*\).*/\1/' | sort | uniq -c | awk '{printf "%s(%s) ", $2, $1}')
  echo "$id-$m: ${props:-not reported}"
  echo "$out" | grep "^  VIOLATION \[\|^  CHECKER" | cut -c1-330 | head -3
done; done
