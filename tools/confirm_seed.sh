#!/bin/bash
# tools/confirm_seed.sh <ID> <mN> <srcdir> <demo-dest-dir-relative-to-repo> [test-run-regex]
# Confirms a seeded change in a scratch worktree of /repo (HEAD): it applies, compiles,
# passes the whole suite, and its demonstration fails with it and passes without it.
# Writes <srcdir>/confirm.json and removes the worktree.
set -u
ID=$1; M=$2; SRC=$3; DEST=$4; RUN=${5:-(?i)seed}
export GOFLAGS=-mod=mod GOPROXY=off GOSUMDB=off GOTOOLCHAIN=local
WT=/tmp/confirm_${ID}_${M}
LOG=$SRC/confirm.log
: > "$LOG"
git -C /repo worktree remove --force "$WT" >/dev/null 2>&1
git -C /repo worktree add --detach "$WT" HEAD >>"$LOG" 2>&1 || { echo "worktree failed"; exit 2; }
cd "$WT"
res() { echo "$1" >> "$LOG"; }
applies=false; builds=false; suite=false; demo_fails_with=false; demo_passes_without=false
if git apply "$SRC/patch.diff" >>"$LOG" 2>&1; then applies=true; fi
if $applies && go build ./... >>"$LOG" 2>&1 && go test -vet=off -count=1 -run '^$' ./... >>"$LOG" 2>&1; then builds=true; fi
if $builds; then
  if go test -vet=off -count=1 -timeout 25m ./... > "$SRC/confirm_suite.log" 2>&1; then suite=true; fi
  res "suite: $(grep -c '^ok' "$SRC/confirm_suite.log") ok, $(grep -c '^FAIL\|^--- FAIL' "$SRC/confirm_suite.log") fail"
  cp "$SRC"/zz_seed_*_test.go "$DEST/" 2>>"$LOG"
  if go test -vet=off -count=1 -timeout 10m -run "$RUN" "./$DEST/" > "$SRC/confirm_demo_with.log" 2>&1; then demo_fails_with=false; else demo_fails_with=true; fi
  git apply -R "$SRC/patch.diff" >>"$LOG" 2>&1
  if go test -vet=off -count=1 -timeout 10m -run "$RUN" "./$DEST/" > "$SRC/confirm_demo_without.log" 2>&1; then demo_passes_without=true; fi
fi
cd /
git -C /repo worktree remove --force "$WT" >>"$LOG" 2>&1
cat > "$SRC/confirm.json" <<J
{"id":"$ID","variant":"$M","repo_head":"$(git -C /repo rev-parse --short HEAD)","applies":$applies,"builds":$builds,"suite_passes":$suite,"demo_fails_with_change":$demo_fails_with,"demo_passes_without_change":$demo_passes_without}
J
cat "$SRC/confirm.json"
