#!/bin/bash
# tools/sweep_seeded.sh [ID-mN ...]  — applies each seeded change to /repo, runs the
# property's quick check, records whether it is reported, and reverts /repo.
# Nothing is committed to /repo.  Output: seeded/SWEEP.tsv
cd /verif
if [ -n "$(git -C /repo status --porcelain)" ]; then echo "/repo is not clean"; exit 2; fi
sel="$@"; [ -z "$sel" ] && sel=$(for d in $(ls seeded | grep -- "-m"); do [ -e seeded/$d/SUPERSEDED ] || echo $d; done)
for s in $sel; do
  id=${s%%-*}
  if ! git -C /repo apply --check /verif/seeded/$s/patch.diff 2>/dev/null; then echo -e "$s\t$id\tPATCH-DOES-NOT-APPLY"; continue; fi
  git -C /repo apply /verif/seeded/$s/patch.diff
  if grep -q "\"property_id\": \"$id\"" MANIFEST.json; then
    out=$(bin/check $id quick 2>&1); rc=$?
    n=$(echo "$out" | grep -c '^VIOLATION')
    first=$(echo "$out" | grep -m1 'VIOLATION \[' | sed 's/^ *//' | cut -c1-160)
    echo -e "$s\t$id\trc=$rc\tviolations=$n\t$first"
  else
    echo -e "$s\t$id\tNO-CHECK-CLAIMED"
  fi
  git -C /repo checkout -- . ; git -C /repo clean -fdq
done
