package tagstree

import (
	"fmt"
	"testing"

	"github.com/cespare/xxhash"
	"github.com/siglens/siglens/pkg/config"
	sutils "github.com/siglens/siglens/pkg/segment/utils"
	"github.com/siglens/siglens/pkg/segment/writer/metrics"
	"github.com/stretchr/testify/require"
)

// Demonstrates F-C08-b (recorded, open).  The tags tree stores per tag value a 16-bit count followed
// by that many series ids.  TagTree.encodeTagsTree only logs when more than 65535 series share one
// tag value (a plain env=prod on a large fleet) and then writes uint16(count) followed by ALL the
// ids: the reader takes count-modulo-65536 ids for the value and the remaining ids as further
// entries, so after the tags tree is flushed a selector env="prod" finds only a fraction of the
// series (and the rest of the chunk is mis-framed).
func Test_Finding_C08b_MoreThan65535SeriesShareATagValue(t *testing.T) {
	dir := t.TempDir() + "/"
	config.InitializeTestingConfig(dir)
	metrics.InitTestingConfig()

	const n = 65536 + 40
	all := make([]timeSeries, 0, n)
	for i := 0; i < n; i++ {
		all = append(all, timeSeries{metric: "fleet.cpu", tags: map[string]string{"env": "prod", "host": fmt.Sprintf("h%d", i)}})
	}
	mSegs, err := writeMockMetrics(false, all)
	require.NoError(t, err)
	require.Greater(t, len(mSegs), 0)

	total := 0
	for _, mSeg := range mSegs {
		tth := metrics.GetTagsTreeHolder(mSeg.Orgid, mSeg.Mid)
		require.NoError(t, tth.EncodeTagsTreeHolder())
		attr, err := InitAllTagsTreeReader(metrics.GetFinalTagsTreeDir(mSeg.Mid, mSeg.Suffix))
		require.NoError(t, err)
		if !attr.tagTreeFileExists("env") {
			continue
		}
		_, _, byValue, err := attr.getOrInsertMatchingTSIDs(xxhash.Sum64String("fleet.cpu"), "env", xxhash.Sum64String("prod"), sutils.Equal, nil)
		require.NoError(t, err)
		total += len(byValue["prod"])
	}
	require.Equal(t, n, total, "series found by env=\"prod\" after the tags tree was flushed")
}
