package virtualtable

import (
	"testing"

	"github.com/siglens/siglens/pkg/config"
	"github.com/stretchr/testify/require"
)

// Demonstrates F-C13-b (repaired).  A wildcard index expression was turned into a regular expression by
// replacing "*" with ".*" only, so every other regexp metacharacter of the expression kept its regexp
// meaning: "logs.app*" also selected the index "logsXapp1", which the expression does not name (index
// names with dots are common), and a search, column listing or delete over the expression touched it.
func Test_Finding_C13b_WildcardExpressionDotIsLiteral(t *testing.T) {
	config.InitializeTestingConfig(t.TempDir())
	require.NoError(t, InitVTable(func() []int64 { return []int64{0} }))
	for _, name := range []string{"logs.app1", "logsXapp1", "logs.app2"} {
		n := name
		require.NoError(t, AddVirtualTable(&n, 0))
	}
	got := ExpandAndReturnIndexNames("logs.app*", 0, false, nil)
	require.ElementsMatch(t, []string{"logs.app1", "logs.app2"}, got, "the expression logs.app* names the indexes that start with `logs.app`")
	require.ElementsMatch(t, []string{"logs.app1", "logs.app2", "logsXapp1"}, ExpandAndReturnIndexNames("logs*", 0, false, nil))
	require.ElementsMatch(t, []string{"logsXapp1"}, ExpandAndReturnIndexNames("*X*1", 0, false, nil))
}
