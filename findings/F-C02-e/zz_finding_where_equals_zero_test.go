package processor

import (
	"encoding/json"
	"fmt"
	"testing"

	"github.com/siglens/siglens/pkg/segment/query/iqr"
	"github.com/siglens/siglens/pkg/segment/structs"
	sutils "github.com/siglens/siglens/pkg/segment/utils"
	"github.com/siglens/siglens/pkg/segment/writer"
	"github.com/siglens/siglens/pkg/utils"
)

// The same comparison `latency <op> <literal>` is evaluated twice for every
// stored value: once the way the search clause does it (typed comparison of
// the stored TLV against the literal) and once by the `where` stage. Both are
// also compared with an independent evaluation by value.

func findingC02eValues() []interface{} {
	return []interface{}{
		int64(7), float64(7.5), float64(6.25), int64(8), float64(-7.5),
		int64(-7), float64(7.25), float64(0.5), int64(0), float64(8.75),
	}
}

func findingC02eEncode(val interface{}) []byte {
	switch v := val.(type) {
	case int64:
		return append([]byte{sutils.VALTYPE_ENC_INT64[0]}, utils.Int64ToBytesLittleEndian(v)...)
	case float64:
		return append([]byte{sutils.VALTYPE_ENC_FLOAT64[0]}, utils.Float64ToBytesLittleEndian(v)...)
	}
	panic("unexpected type")
}

func findingC02eFloat(val interface{}) float64 {
	switch v := val.(type) {
	case int64:
		return float64(v)
	case float64:
		return v
	}
	panic("unexpected type")
}

func findingC02eOracle(val float64, op string, lit float64) bool {
	switch op {
	case "=":
		return val == lit
	case "!=":
		return val != lit
	case "<":
		return val < lit
	case "<=":
		return val <= lit
	case ">":
		return val > lit
	case ">=":
		return val >= lit
	}
	panic("unexpected op")
}

func findingC02eWhere(t *testing.T, op string, literal string) map[int]bool {
	values := findingC02eValues()
	knownValues := map[string][]sutils.CValueEnclosure{
		"latency": make([]sutils.CValueEnclosure, len(values)),
		"rowid":   make([]sutils.CValueEnclosure, len(values)),
	}
	for i, val := range values {
		dtype := sutils.SS_DT_SIGNED_NUM
		if _, ok := val.(float64); ok {
			dtype = sutils.SS_DT_FLOAT
		}
		knownValues["latency"][i] = sutils.CValueEnclosure{Dtype: dtype, CVal: val}
		knownValues["rowid"][i] = sutils.CValueEnclosure{Dtype: sutils.SS_DT_SIGNED_NUM, CVal: int64(i)}
	}

	processor := &whereProcessor{options: &structs.BoolExpr{
		IsTerminal: true,
		LeftValue: &structs.ValueExpr{
			ValueExprMode: structs.VEMNumericExpr,
			NumericExpr: &structs.NumericExpr{
				NumericExprMode: structs.NEMNumberField,
				IsTerminal:      true,
				ValueIsField:    true,
				Value:           "latency",
			},
		},
		RightValue: &structs.ValueExpr{
			ValueExprMode: structs.VEMNumericExpr,
			NumericExpr: &structs.NumericExpr{
				NumericExprMode: structs.NEMNumber,
				IsTerminal:      true,
				ValueIsField:    false,
				Value:           literal,
			},
		},
		ValueOp: op,
	}}

	input := iqr.NewIQR(0)
	if err := input.AppendKnownValues(knownValues); err != nil {
		t.Fatalf("AppendKnownValues: %v", err)
	}
	output, err := processor.Process(input)
	if err != nil {
		t.Fatalf("where %v %v: %v", op, literal, err)
	}
	rowids, err := output.ReadColumn("rowid")
	if err != nil {
		t.Fatalf("ReadColumn: %v", err)
	}

	kept := make(map[int]bool)
	for _, rowid := range rowids {
		kept[int(rowid.CVal.(int64))] = true
	}
	return kept
}

func Test_FindingC02e_WhereEqualsZeroOnFractionalValues(t *testing.T) {
	ops := map[string]sutils.FilterOperator{
		"=":  sutils.Equals,
		"!=": sutils.NotEquals,
		"<":  sutils.LessThan,
		"<=": sutils.LessThanOrEqualTo,
		">":  sutils.GreaterThan,
		">=": sutils.GreaterThanOrEqualTo,
	}
	// `where latency=0` must not keep 7.5: the integer conversion of the stored
	// value fails, and the comparison must then not go on with the zero that
	// the failed conversion handed back.
	literals := []string{"0", "7", "7.5", "-7", "8", "6.25", "1"}
	values := findingC02eValues()

	for _, literal := range literals {
		var litFloat float64
		_, err := fmt.Sscanf(literal, "%g", &litFloat)
		if err != nil {
			t.Fatalf("bad literal %v: %v", literal, err)
		}
		qValDte, err := sutils.CreateDtypeEnclosure(json.Number(literal), 0)
		if err != nil {
			t.Fatalf("CreateDtypeEnclosure(%v): %v", literal, err)
		}

		for opStr, fop := range ops {
			kept := findingC02eWhere(t, opStr, literal)

			holder := &sutils.DtypeEnclosure{}
			for row, val := range values {
				want := findingC02eOracle(findingC02eFloat(val), opStr, litFloat)

				inSearch, err := writer.ApplySearchToExpressionFilterSimpleCsg(qValDte, fop,
					findingC02eEncode(val), false, holder, false)
				if err != nil {
					t.Fatalf("search clause latency%v%v on %v: %v", opStr, literal, val, err)
				}
				if inSearch != want {
					t.Errorf("search clause: latency%v%v on stored %v (%T): got %v, want %v",
						opStr, literal, val, val, inSearch, want)
				}
				if kept[row] != want {
					t.Errorf("where stage: latency%v%v on stored %v (%T): got %v, want %v (search clause says %v)",
						opStr, literal, val, val, kept[row], want, inSearch)
				}
			}
		}
	}
}
