package processor

import (
	"testing"

	"github.com/siglens/siglens/pkg/segment/query/iqr"
	"github.com/siglens/siglens/pkg/segment/structs"
	sutils "github.com/siglens/siglens/pkg/segment/utils"
	"github.com/stretchr/testify/require"
)

func findingC06aRun(t *testing.T, mk func() *structs.StreamStatsOptions, col string, data map[string][]sutils.CValueEnclosure, cuts []int) []sutils.CValueEnclosure {
	t.Helper()
	p := &streamstatsProcessor{options: mk()}
	n := 0
	for _, v := range data {
		n = len(v)
	}
	var out []sutils.CValueEnclosure
	start := 0
	for _, end := range append(cuts, n) {
		part := map[string][]sutils.CValueEnclosure{}
		for k, v := range data {
			part[k] = v[start:end]
		}
		in := iqr.NewIQR(0)
		require.NoError(t, in.AppendKnownValues(part))
		res, err := p.Process(in)
		require.NoError(t, err)
		vals, err := res.ReadColumn(col)
		require.NoError(t, err)
		out = append(out, vals...)
		start = end
	}
	return out
}

// Demonstrates F-C06-a.  streamstatsProcessor.Process starts every batch with
// p.currentIndex = 0 and p.currentBucketKey = "", although the window contents and the running
// statistics are kept from the previous batch.  The same rows therefore give different results
// when they arrive in two batches instead of one: the window of a windowed streamstats is
// evicted by the wrong index after a batch boundary, and reset_on_change resets at every
// batch boundary.
func Test_Finding_C06a_StreamstatsDependsOnBatchBoundaries(t *testing.T) {
	data := getStreamStatsTestData()

	window := func() *structs.StreamStatsOptions {
		m := []*structs.MeasureAggregator{{MeasureCol: "http_status", MeasureFunc: sutils.Sum}}
		return &structs.StreamStatsOptions{Window: 3, MeasureOperations: m}
	}
	one := findingC06aRun(t, window, "sum(http_status)", data, nil)
	for cut := 1; cut < 6; cut++ {
		two := findingC06aRun(t, window, "sum(http_status)", data, []int{cut})
		require.Equal(t, one, two, "streamstats window=3 sum(http_status): one batch of 6 rows vs batches of %d+%d rows", cut, 6-cut)
	}

	resetOnChange := func() *structs.StreamStatsOptions {
		m := []*structs.MeasureAggregator{{MeasureCol: "http_status", MeasureFunc: sutils.Count}}
		return &structs.StreamStatsOptions{Window: 3, ResetOnChange: true, MeasureOperations: m,
			GroupByRequest: &structs.GroupByRequest{GroupByColumns: []string{"http_method"}, MeasureOperations: m}}
	}
	one = findingC06aRun(t, resetOnChange, "count(http_status)", data, nil)
	for cut := 1; cut < 6; cut++ {
		two := findingC06aRun(t, resetOnChange, "count(http_status)", data, []int{cut})
		require.Equal(t, one, two, "streamstats reset_on_change by http_method: one batch vs batches of %d+%d rows (rows 3 and 4 are both GET)", cut, 6-cut)
	}
}
