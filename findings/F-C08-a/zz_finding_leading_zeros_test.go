package compress

import (
	"bytes"
	"math"
	"testing"

	"github.com/stretchr/testify/require"
)

// Demonstrates F-C08-a: successive values whose XOR has 32 or more leading zero bits
// (they differ only in low mantissa bits) did not round-trip: the leading-zero count
// was written into a 5-bit field without a clamp.
func Test_Finding_C08a_LowMantissaBitsRoundTrip(t *testing.T) {
	vals := []float64{1.0, math.Nextafter(1.0, 2), math.Nextafter(math.Nextafter(1.0, 2), 2), 1.0, 123456.789, math.Nextafter(123456.789, 0)}
	var buf bytes.Buffer
	header := uint32(1_700_000_000)
	c, finish, err := NewCompressor(&buf, header)
	require.NoError(t, err)
	for i, v := range vals {
		_, err := c.Compress(header+uint32(i*15), v)
		require.NoError(t, err)
	}
	require.NoError(t, finish())

	d, err := NewDecompressIterator(bytes.NewReader(buf.Bytes()))
	require.NoError(t, err)
	i := 0
	for d.Next() {
		ts, v := d.At()
		require.Equal(t, header+uint32(i*15), ts)
		require.Equal(t, math.Float64bits(vals[i]), math.Float64bits(v), "value %d: wrote %v (%#x), read %v (%#x)", i, vals[i], math.Float64bits(vals[i]), v, math.Float64bits(v))
		i++
	}
	require.NoError(t, d.Err())
	require.Equal(t, len(vals), i)
}
