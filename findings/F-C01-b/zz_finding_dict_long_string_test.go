package segreader

import (
	"bytes"
	"testing"

	"github.com/siglens/siglens/pkg/segment/structs"
	sutils "github.com/siglens/siglens/pkg/segment/utils"
	"github.com/siglens/siglens/pkg/utils"
	"github.com/stretchr/testify/require"
)

// Demonstrates F-C01-b (repaired).  The reader of a dictionary-encoded block advanced over a string
// word with idx += uint32(3 + length) where the sum was computed in uint16: for a string of 65533 to
// 65535 bytes (the TLV length field allows them) the sum wraps, the word is cut after 0 to 2 bytes and
// everything that follows in the block (its record list, the next words) is decoded from the middle of
// the string.
func Test_Finding_C01b_DictionaryWordOfMaximalLength(t *testing.T) {
	long := bytes.Repeat([]byte{'x'}, 65534)
	var buf []byte
	buf = append(buf, utils.Uint16ToBytesLittleEndian(2)...) // two dictionary words
	// word 0: the long string, used by record 0
	buf = append(buf, sutils.VALTYPE_ENC_SMALL_STRING[0])
	buf = append(buf, utils.Uint16ToBytesLittleEndian(uint16(len(long)))...)
	buf = append(buf, long...)
	buf = append(buf, utils.Uint16ToBytesLittleEndian(1)...)
	buf = append(buf, utils.Uint16ToBytesLittleEndian(0)...)
	// word 1: "ab", used by record 1
	buf = append(buf, sutils.VALTYPE_ENC_SMALL_STRING[0])
	buf = append(buf, utils.Uint16ToBytesLittleEndian(2)...)
	buf = append(buf, 'a', 'b')
	buf = append(buf, utils.Uint16ToBytesLittleEndian(1)...)
	buf = append(buf, utils.Uint16ToBytesLittleEndian(1)...)

	sfr := &SegmentFileReader{blockSummaries: []*structs.BlockSummary{{RecCount: 2}}}
	err := sfr.ReadDictEnc(buf, 0)
	require.NoError(t, err)
	require.Equal(t, 3+len(long), len(sfr.deTlv[0]), "the first dictionary word must be the whole string")
	require.Equal(t, []byte{sutils.VALTYPE_ENC_SMALL_STRING[0], 2, 0, 'a', 'b'}, sfr.deTlv[1])
	require.Equal(t, uint16(0), sfr.deRecToTlv[0])
	require.Equal(t, uint16(1), sfr.deRecToTlv[1])
}
