package virtualtable

import (
	"os"
	"testing"
)

func setupAliasDirs(t *testing.T) {
	dir := t.TempDir() + "/"
	VTableBaseDir = dir
	VTableMappingsDir = dir + "mappings/"
	VTableTemplatesDir = dir + "templates/"
	VTableAliasesDir = dir + "aliases/"
	if err := CreateVirtTableBaseDirs(VTableBaseDir, VTableMappingsDir, VTableTemplatesDir, VTableAliasesDir); err != nil {
		t.Fatal(err)
	}
	aliasToIndexNames = make(map[int64]map[string]map[string]bool)
}

func restartAliases(t *testing.T) {
	aliasToIndexNames = make(map[int64]map[string]map[string]bool)
	if err := initializeAliasToIndexMap(); err != nil {
		t.Fatal(err)
	}
}

func Test_AliasRestartOrg0(t *testing.T) {
	setupAliasDirs(t)
	if err := AddAliases("myidx", []string{"myalias"}, 0); err != nil {
		t.Fatal(err)
	}
	if ok, idx := IsAlias("myalias", 0); !ok || idx != "myidx" {
		t.Fatalf("before restart: %v %v", ok, idx)
	}
	restartAliases(t)
	if ok, idx := IsAlias("myalias", 0); !ok || idx != "myidx" {
		t.Errorf("after restart (no flush): alias lost: IsAlias=%v idx=%q", ok, idx)
	}
}

func Test_AliasFlushThenRestart(t *testing.T) {
	for _, org := range []int64{0, 7} {
		setupAliasDirs(t)
		if org != 0 {
			_ = os.MkdirAll(VTableAliasesDir+"7/", 0764)
		}
		if err := AddAliases("myidx", []string{"myalias"}, org); err != nil {
			t.Fatal(err)
		}
		_ = FlushAliasMapToFile()
		restartAliases(t)
		if ok, idx := IsAlias("myidx", org); ok {
			t.Errorf("org %d: after flush+restart the index name became an alias of %q", org, idx)
		}
		al, _ := GetAliases("myalias", org)
		if len(al) != 0 {
			t.Errorf("org %d: after flush+restart GetAliases(alias)=%v", org, al)
		}
		if ok, idx := IsAlias("myalias", org); !ok || idx != "myidx" {
			t.Errorf("org %d: alias lost after flush+restart: %v %q", org, ok, idx)
		}
	}
}
