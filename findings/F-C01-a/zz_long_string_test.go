package pipesearch

import (
	"context"
	"fmt"
	"strings"
	"testing"
	"time"

	"github.com/siglens/siglens/pkg/config"
	eswriter "github.com/siglens/siglens/pkg/es/writer"
	"github.com/siglens/siglens/pkg/segment/memory/limit"
	"github.com/siglens/siglens/pkg/segment/query"
	"github.com/siglens/siglens/pkg/segment/writer"
	serverutils "github.com/siglens/siglens/pkg/server/utils"
	vtable "github.com/siglens/siglens/pkg/virtualtable"
	"github.com/stretchr/testify/require"
)

// F-C01-a: a string value longer than 65535 bytes that reaches GetNewPLE (OTLP, Loki, Splunk HEC and the
// trace handlers have no record-size gate) is accepted and stored as its first len mod 65536 bytes.
func Test_FC01a_longStringValue(t *testing.T) {
	ctx, cancel := context.WithCancel(context.Background())
	defer cancel()
	go query.PullQueriesToRun(ctx)
	config.InitializeTestingConfig(t.TempDir())
	limit.InitMemoryLimiter()
	require.NoError(t, query.InitQueryNode(func() []int64 { return []int64{0} }, serverutils.ExtractKibanaRequests))
	writer.InitWriterNode()
	require.NoError(t, vtable.InitVTable(serverutils.GetMyIds))

	const index = "fc01a"
	const baseTs = uint64(1700000000000)
	tsKey := config.GetTimeStampKey()
	var stackbuf [64]byte

	long := strings.Repeat("x", 70000)
	raw := []byte(fmt.Sprintf(`{"timestamp":%d,"id":1,"msg":"%s","tail":"end"}`, baseTs, long))
	ple, err := writer.GetNewPLE(raw, 1, index, &tsKey, stackbuf[:])
	if err != nil {
		t.Logf("event rejected at parse time (acceptable): %v", err)
		return
	}
	err = eswriter.ProcessIndexRequestPle(1, index, false, map[string]string{}, 0, 0,
		map[string]string{}, map[uint64]string{}, stackbuf[:], []*writer.ParsedLogEvent{ple})
	require.NoError(t, err)

	d := time.Duration(1)
	time.Sleep(2 * time.Millisecond)
	writer.FlushWipBufferToFile(&d, nil)

	req := map[string]interface{}{
		"searchText": "*", "indexName": index, "startEpoch": baseTs - 1000, "endEpoch": baseTs + 100000,
		"size": 10, "queryLanguage": "Splunk QL",
	}
	resp, _, _, err := ParseAndExecutePipeRequest(req, 770102, 0, time.Now(), "", nil)
	require.NoError(t, err)
	require.Len(t, resp.Hits.Hits, 1)
	got, _ := resp.Hits.Hits[0]["msg"].(string)
	if len(got) != len(long) {
		t.Errorf("accepted a %d-byte value, got back %d bytes (70000 mod 65536 = %d)", len(long), len(got), 70000%65536)
	}
}
