package pipesearch

import (
	"testing"

	"github.com/siglens/siglens/pkg/segment/query"
	"github.com/siglens/siglens/pkg/segment/structs"
	"github.com/stretchr/testify/require"
)

// Demonstrates F-C17-a: RunQueryForNewPipeline starts the timechart query, then
// fails to start the main query (its qid is already taken) and returns without
// removing the timechart query from the query tables.
func Test_Finding_C17a_TimechartQueryLeaksWhenMainStartFails(t *testing.T) {
	const qid = uint64(424242)
	_, err := query.StartQuery(qid, false, nil, true) // another request already runs under this qid
	require.NoError(t, err)
	defer query.DeleteQuery(qid)
	waitingBefore := len(query.GetWaitingQueries())
	activeBefore := query.GetActiveQueryCount()

	root := &structs.ASTNode{}
	aggs := &structs.QueryAggregators{}
	_, _, _, err = RunQueryForNewPipeline(nil, qid, root, aggs, root, aggs, &structs.QueryContext{}, 0)
	require.Error(t, err, "the main query cannot start: qid already exists")

	require.Equal(t, waitingBefore, len(query.GetWaitingQueries()), "the timechart query that was started is still queued although the request already failed; it will be run later with nobody listening and keep a running-query slot forever")
	require.Equal(t, activeBefore, query.GetActiveQueryCount())
}
