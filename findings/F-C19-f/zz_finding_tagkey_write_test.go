package tagstree

import (
	"os"
	"path/filepath"
	"testing"

	"github.com/siglens/siglens/pkg/config"
	"github.com/siglens/siglens/pkg/segment/writer/metrics"
	"github.com/stretchr/testify/require"
)

// Demonstrates F-C19-f (repaired): a tag key of an ingested metric (OpenTSDB put, Prometheus remote
// write) names the tags tree file of that key.  Before the repair a key with ../ segments made the
// periodic tags tree flush create and write a file outside the tags tree / data directory.
func Test_Finding_C19f_TagKeyWritesOutsideDataDir(t *testing.T) {
	root := t.TempDir()
	dataDir := filepath.Join(root, "a", "b", "data") + "/"
	config.InitializeTestingConfig(dataDir)
	metrics.InitTestingConfig()
	_, err := writeMockMetrics(false, []timeSeries{{metric: "m1", tags: map[string]string{"../../../../../../../../../../../../../../../.." + root + "/escaped": "v"}}})
	require.NoError(t, err)
	for _, mSeg := range metrics.GetAllMetricsSegments() {
		tth := metrics.GetTagsTreeHolder(mSeg.Orgid, mSeg.Mid)
		if tth != nil {
			_ = tth.EncodeTagsTreeHolder()
		}
	}
	_, err = os.Stat(filepath.Join(root, "escaped"))
	require.True(t, os.IsNotExist(err), "a tags tree file was created outside the data directory from a client-supplied tag key")
}
