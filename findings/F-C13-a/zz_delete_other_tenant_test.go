package writer

import (
	"fmt"
	"os"
	"testing"
	"time"

	dtu "github.com/siglens/siglens/pkg/common/dtypeutils"
	"github.com/siglens/siglens/pkg/config"
	segmetadata "github.com/siglens/siglens/pkg/segment/metadata"
	segwriter "github.com/siglens/siglens/pkg/segment/writer"
	server_utils "github.com/siglens/siglens/pkg/server/utils"
	vtable "github.com/siglens/siglens/pkg/virtualtable"
	"github.com/stretchr/testify/require"
)

// F-C13-a: deleting index X of one organisation removes index X of every organisation:
// writer.DeleteSegmentsForIndex / DeleteVirtualTableSegStore select by index name only.
func Test_FC13a_DeleteIndexOfOneTenantKeepsTheOthers(t *testing.T) {
	dir := t.TempDir() + "/"
	t.Cleanup(func() { os.RemoveAll(dir) })
	config.InitializeTestingConfig(dir)
	config.SetDataPath(dir)
	segwriter.InitWriterNode()
	require.NoError(t, vtable.InitVTable(func() []int64 { return []int64{1, 2} }))
	_ = server_utils.GetMyIds

	const index = "shared-name"
	now := uint64(1700000000000)
	tsKey := config.GetTimeStampKey()
	var buf [64]byte
	for _, org := range []int64{1, 2} {
		idx := index
		require.NoError(t, vtable.AddVirtualTable(&idx, org))
		raw := []byte(fmt.Sprintf(`{"timestamp":%d,"owner":"org-%d"}`, now, org))
		ple, err := segwriter.GetNewPLE(raw, now, index, &tsKey, buf[:])
		require.NoError(t, err)
		require.NoError(t, ProcessIndexRequestPle(now, index, false, map[string]string{}, org, 0,
			map[string]string{}, map[uint64]string{}, buf[:], []*segwriter.ParsedLogEvent{ple}))
	}
	d := time.Duration(1)
	time.Sleep(2 * time.Millisecond)
	segwriter.FlushWipBufferToFile(&d, nil)
	segwriter.ForceRotateSegmentsForTest()

	tr := &dtu.TimeRange{StartEpochMs: 0, EndEpochMs: 1 << 62}
	colsOf := func(org int64) map[string]struct{} {
		res := map[string]struct{}{}
		segmetadata.CollectColumnsForTheIndexesByTimeRange(tr, []string{index}, org, res)
		return res
	}
	require.Contains(t, colsOf(1), "owner", "org 1 has a rotated segment of the index before the delete")
	require.Contains(t, colsOf(2), "owner", "org 2 has a rotated segment of the index before the delete")

	deleteIndex(index, 1, nil)

	if _, ok := colsOf(2)["owner"]; !ok {
		t.Errorf("org 1 deleted its index %q and the segments of org 2's index of the same name are gone", index)
	}
}
