package query

import (
	"testing"
	"time"
)

// F-C17-d (1): RestartAllRunningQueries sent QUERY_RESTART on every running query's
// StateChan while holding arqMapLock (read).  If one query's channel is full (its
// consumer is busy, e.g. writing to a slow websocket) the send blocks with the lock
// held, and every operation that needs the write lock - starting or deleting ANY
// query - blocks behind it.
func Test_Finding_C17d_RestartAllBlocksOtherQueries(t *testing.T) {
	stuck := uint64(777001)
	rq, err := StartQuery(stuck, true, nil, true)
	if err != nil {
		t.Fatal(err)
	}
	// the consumer of this query is slow: its state channel fills up
	for len(rq.StateChan) < cap(rq.StateChan) {
		rq.StateChan <- &QueryStateChanData{StateName: QUERY_UPDATE, Qid: stuck}
	}
	go RestartAllRunningQueries()
	time.Sleep(200 * time.Millisecond)

	done := make(chan struct{})
	go func() {
		other := uint64(777002)
		if _, err := StartQuery(other, false, nil, true); err == nil {
			DeleteQuery(other)
		}
		close(done)
	}()
	select {
	case <-done:
	case <-time.After(2 * time.Second):
		t.Errorf("an unrelated query cannot start: RestartAllRunningQueries holds arqMapLock while blocked on the full StateChan of query %d", stuck)
	}
	// let everything finish
	for len(rq.StateChan) > 0 {
		<-rq.StateChan
	}
	<-done
	time.Sleep(50 * time.Millisecond)
	for len(rq.StateChan) > 0 {
		<-rq.StateChan
	}
	DeleteQuery(stuck)
}

// F-C17-d (2), recorded, not repaired: on the restart path the new query reuses the
// old query's StateChan, and withLockRunQuery sends READY and RUNNING on it under
// arqMapLock (write).  The goroutine calling RestartQuery is the channel's only
// consumer, so when the channel already holds cap-1 pending updates the send blocks
// forever with the global lock held: the query hangs and so does every other query.
func Test_Finding_C17d_RestartWithPendingUpdatesDeadlocks(t *testing.T) {
	qid := uint64(777003)
	rq, err := StartQueryAsCoordinator(qid, true, nil, nil, nil, nil, nil, true)
	if err != nil {
		t.Fatal(err)
	}
	for len(rq.StateChan) > 0 { // drain READY, RUNNING
		<-rq.StateChan
	}
	// progress updates are pending while the coordinator handles QUERY_RESTART
	for len(rq.StateChan) < cap(rq.StateChan)-1 {
		rq.StateChan <- &QueryStateChanData{StateName: QUERY_UPDATE, Qid: qid}
	}
	restarted := make(chan uint64, 1)
	go func() {
		_, newQid, _ := rq.RestartQuery(true)
		restarted <- newQid
	}()
	select {
	case newQid := <-restarted:
		DeleteQuery(newQid)
	case <-time.After(2 * time.Second):
		t.Errorf("RestartQuery never returns: withLockRunQuery is blocked sending on the reused, nearly full StateChan while holding arqMapLock")
		// unblock so that the test binary can exit
		for len(rq.StateChan) > 0 {
			<-rq.StateChan
		}
		DeleteQuery(<-restarted)
	}
}
