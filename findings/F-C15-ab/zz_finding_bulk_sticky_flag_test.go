package writer

import (
	"strings"
	"testing"

	"github.com/siglens/siglens/pkg/config"
	sutils "github.com/siglens/siglens/pkg/segment/utils"
	segwriter "github.com/siglens/siglens/pkg/segment/writer"
	server_utils "github.com/siglens/siglens/pkg/server/utils"
	vtable "github.com/siglens/siglens/pkg/virtualtable"
	"github.com/stretchr/testify/require"
)

// Demonstrates F-C15-a/b: an oversized document makes the `maxRecordSizeExceeded`
// flag stick for the rest of the request, so a later malformed document is reported
// as 413 instead of 400, and neither failure sets the `errors` flag.
func Test_Finding_C15ab_OversizeDocPoisonsLaterItems(t *testing.T) {
	config.InitializeTestingConfig(t.TempDir())
	segwriter.InitWriterNode()
	_ = vtable.InitVTable(server_utils.GetMyIds)

	big := `{"k":"` + strings.Repeat("x", sutils.MAX_RECORD_SIZE+10) + `"}`
	body := `{"index":{"_index":"idx-c15"}}` + "\n" + `{"a":"ok-1"}` + "\n" +
		`{"index":{"_index":"idx-c15"}}` + "\n" + big + "\n" +
		`{"index":{"_index":"idx-c15"}}` + "\n" + `{"a": not-json` + "\n" +
		`{"index":{"_index":"idx-c15"}}` + "\n" + `{"a":"ok-2"}` + "\n"
	_, resp, err := HandleBulkBody([]byte(body), nil, 0, 0, false)
	require.NoError(t, err)
	items := resp["items"].([]interface{})
	require.Len(t, items, 4)
	status := func(i int) interface{} {
		m := items[i].(map[string]interface{})
		if s, ok := m["status"]; ok {
			return s
		}
		return m["index"].(map[string]interface{})["status"]
	}
	require.EqualValues(t, 201, status(0))
	require.EqualValues(t, 413, status(1))
	require.EqualValues(t, 400, status(2), "a malformed document after an oversized one must be reported as malformed, not as too large")
	require.EqualValues(t, 201, status(3))
	require.Equal(t, true, resp["errors"], "items failed, so the errors flag must be true")
}

func Test_Finding_C15b_OversizeOnlySetsErrorsFlag(t *testing.T) {
	config.InitializeTestingConfig(t.TempDir())
	segwriter.InitWriterNode()
	_ = vtable.InitVTable(server_utils.GetMyIds)
	big := `{"k":"` + strings.Repeat("x", sutils.MAX_RECORD_SIZE+10) + `"}`
	body := `{"index":{"_index":"idx-c15b"}}` + "\n" + `{"a":"ok-1"}` + "\n" +
		`{"index":{"_index":"idx-c15b"}}` + "\n" + big + "\n"
	_, resp, err := HandleBulkBody([]byte(body), nil, 0, 0, false)
	require.NoError(t, err)
	require.Equal(t, true, resp["errors"], "the oversized item failed (413), so the errors flag must be true")
}
