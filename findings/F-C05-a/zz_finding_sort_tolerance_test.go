package processor

import (
	"testing"

	"github.com/siglens/siglens/pkg/segment/query/iqr"
	"github.com/siglens/siglens/pkg/segment/structs"
	sutils "github.com/siglens/siglens/pkg/segment/utils"
	"github.com/stretchr/testify/require"
)

// Demonstrates F-C05-a: the sort comparator treated floats closer than 1e-4 as equal.
// That relation is not transitive, so `sort num(v)` returned values out of order: in
// 1.00012, 1.00006, 1.00000, 1.00009, 1.00003 every neighbour pair in the input is
// "equal" for the comparator although the values differ.
func Test_Finding_C05a_SortOfCloseFloats(t *testing.T) {
	sorter := &sortProcessor{
		options: &structs.SortExpr{
			SortEles: []*structs.SortElement{{Field: "v", SortByAsc: true, Op: "num"}},
			Limit:    100,
		},
	}
	vals := []float64{1.00012, 1.00006, 1.00000, 1.00009, 1.00003}
	col := []sutils.CValueEnclosure{}
	for _, v := range vals {
		col = append(col, sutils.CValueEnclosure{Dtype: sutils.SS_DT_FLOAT, CVal: v})
	}
	in := iqr.NewIQR(0)
	require.NoError(t, in.AppendKnownValues(map[string][]sutils.CValueEnclosure{"v": col}))
	_, err := sorter.Process(in)
	require.NoError(t, err)
	got, err := sorter.resultsSoFar.ReadColumn("v")
	require.NoError(t, err)
	require.Len(t, got, len(vals))
	for i := 1; i < len(got); i++ {
		require.LessOrEqual(t, got[i-1].CVal.(float64), got[i].CVal.(float64), "adjacent results out of order at position %d: %v", i, got)
	}
}
