package pipesearch

import (
	"fmt"
	"context"
	"encoding/json"
	"os"
	"sort"
	"testing"
	"time"

	"github.com/siglens/siglens/pkg/config"
	"github.com/siglens/siglens/pkg/segment"
	"github.com/siglens/siglens/pkg/segment/memory/limit"
	"github.com/siglens/siglens/pkg/segment/query"
	"github.com/siglens/siglens/pkg/segment/structs"
	sutils "github.com/siglens/siglens/pkg/segment/utils"
	"github.com/siglens/siglens/pkg/segment/writer"
	serverutils "github.com/siglens/siglens/pkg/server/utils"
	vtable "github.com/siglens/siglens/pkg/virtualtable"
	"github.com/stretchr/testify/require"
)

func fc02Ingest(t *testing.T, index string, events []map[string]interface{}) {
	cache := make(map[uint64]string)
	var buf [64]byte
	tsKey := "timestamp"
	for i, ev := range events {
		ev["timestamp"] = uint64(i + 1)
		raw, _ := json.Marshal(ev)
		ple := writer.NewPLE()
		ple.SetRawJson(raw)
		ple.SetTimestamp(uint64(i + 1))
		ple.SetIndexName(index)
		require.NoError(t, writer.ParseRawJsonObject("", raw, &tsKey, buf[:], ple))
		require.NoError(t, writer.AddEntryToInMemBuf(index+"-stream", index, false, sutils.SIGNAL_EVENTS, 0, 0, cache, buf[:], []*writer.ParsedLogEvent{ple}))
	}
	sl := time.Duration(1)
	time.Sleep(sl)
	writer.FlushWipBufferToFile(&sl, nil)
}

func fc02Search(t *testing.T, index, spl string, n int, qid uint64) []int {
	astNode, aggs, _, err := ParseRequest(spl, 1, uint64(n)+10, qid, "Splunk QL", index)
	require.NoError(t, err, spl)
	if aggs == nil {
		aggs = &structs.QueryAggregators{}
	}
	aggs.EarlyExit = false
	qc := structs.InitQueryContext(index, uint64(10000), 0, 0, false, nil)
	res := segment.ExecuteQuery(astNode, aggs, qid, qc)
	require.Len(t, res.ErrList, 0, spl)
	ids := []int{}
	for _, rrc := range res.AllRecords {
		ids = append(ids, int(rrc.TimeStamp)-1)
	}
	sort.Ints(ids)
	return ids
}

func Test_FC02cd_NegatedTerm(t *testing.T) {
	ctx, cancel := context.WithCancel(context.Background())
	go query.PullQueriesToRun(ctx)
	defer cancel()
	dir := t.TempDir() + "/"
	t.Cleanup(func() { os.RemoveAll(dir) })
	config.InitializeTestingConfig(dir)
	config.SetDataPath(dir)
	limit.InitMemoryLimiter()
	require.NoError(t, query.InitQueryNode(func() []int64 { return []int64{0} }, serverutils.ExtractKibanaRequests))
	writer.InitWriterNode()
	_ = vtable.InitVTable(serverutils.GetMyIds)
	events := []map[string]interface{}{{"msg": "world one", "app": "a"}, {"msg": "world two", "app": "b"}, {"msg": "third", "app": "a"}}
	fc02Ingest(t, "probeneg", events)
	// same data plus a high-cardinality column, so that one column of the block is not dictionary encoded
	big := []map[string]interface{}{}
	for i := 0; i < 700; i++ {
		m := "world"
		if i%7 == 0 {
			m = "third"
		}
		big = append(big, map[string]interface{}{"msg": m, "uid": fmt.Sprintf("u-%d", i)})
	}
	fc02Ingest(t, "probenegbig", big)
	gotBig := fc02Search(t, "probenegbig", "NOT world", len(big), 9400)
	if len(gotBig) != 100 {
		t.Errorf("high-cardinality block: NOT world -> %d events (want 100)", len(gotBig))
	}
	qid := uint64(9500)
	for _, q := range []struct {
		spl  string
		want []int
	}{
		{"NOT hello", []int{0, 1, 2}},
		{"NOT world", []int{2}},
		{"msg!=hello", []int{0, 1, 2}},
		{"app=a NOT hello", []int{0, 2}},
		{"NOT \"hello there\"", []int{0, 1, 2}},
	} {
		qid++
		got := fc02Search(t, "probeneg", q.spl, len(events), qid)
		if !equalInts(got, q.want) {
			t.Errorf("open segment, every column dictionary encoded: %-22s want %v got %v", q.spl, q.want, got)
		}
	}
	for _, spl := range []string{"NOT hello", "NOT world", "app=a NOT hello", "world", "msg!=\"world one\""} {
		qid++
		req := map[string]interface{}{"searchText": spl, "indexName": "probeneg", "startEpoch": uint64(1), "endEpoch": uint64(100000), "size": 100, "queryLanguage": "Splunk QL"}
		resp, _, _, err := ParseAndExecutePipeRequest(req, qid, 0, time.Now(), "", nil)
		require.NoError(t, err)
		ids := []int{}
		for _, h := range resp.Hits.Hits {
			ids = append(ids, int(h["timestamp"].(uint64))-1)
		}
		sort.Ints(ids)
		t.Logf("pipeline  %-22s got %v", spl, ids)
	}
	writer.ForceRotateSegmentsForTest()
	time.Sleep(100 * time.Millisecond)
	for _, q := range []struct {
		spl  string
		want []int
	}{
		{"NOT hello", []int{0, 1, 2}},
		{"NOT world", []int{2}},
		{"app=a NOT hello", []int{0, 2}},
	} {
		qid++
		got := fc02Search(t, "probeneg", q.spl, len(events), qid)
		if !equalInts(got, q.want) {
			t.Errorf("rotated segment: %-22s want %v got %v", q.spl, q.want, got)
		}
	}
}

func equalInts(a, b []int) bool {
	if len(a) != len(b) {
		return false
	}
	for i := range a {
		if a[i] != b[i] {
			return false
		}
	}
	return true
}
