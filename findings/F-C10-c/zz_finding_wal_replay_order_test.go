package metrics

import (
	"fmt"
	"path/filepath"
	"testing"

	"github.com/siglens/siglens/pkg/config"
	"github.com/siglens/siglens/pkg/segment/writer/metrics/wal"
	"github.com/stretchr/testify/require"
)

// Demonstrates F-C10-c (repaired).  The datapoint WAL of one metrics block is split into files
// ..._0.wal, ..._1.wal, ... (a new file every MAX_WAL_FILE_SIZE_BYTES).  Recovery listed them in
// file-name order, in which ..._10.wal and ..._11.wal come before ..._2.wal, so for a block with more
// than ten WAL files the datapoints whose append had completed were replayed out of order.
func Test_Finding_C10c_WalFilesReplayedInAppendOrder(t *testing.T) {
	cfg := config.GetTestConfig(t.TempDir() + "/")
	cfg.SSInstanceName = "test"
	config.SetConfig(cfg)
	require.NoError(t, config.InitDerivedConfig("test"))

	baseDir := getWALBaseDir()
	var appended []uint32
	ts := uint32(1_700_000_000)
	for idx := 0; idx < 12; idx++ {
		name := fmt.Sprintf("shardID_0_segID_7_blockID_2_%d.wal", idx)
		w, err := wal.NewWAL(filepath.Join(baseDir, name), wal.NewDataPointEncoder())
		require.NoError(t, err)
		dps := make([]wal.WalDatapoint, 0, 5)
		for i := 0; i < 5; i++ {
			ts++
			dps = append(dps, wal.WalDatapoint{Timestamp: ts, DpVal: float64(ts), Tsid: 1})
			appended = append(appended, ts)
		}
		require.NoError(t, w.Append(dps))
		require.NoError(t, w.Close())
	}

	infos, err := extractWALFileInfo(baseDir)
	require.NoError(t, err)
	require.Len(t, infos, 1)
	var replayed []uint32
	for _, info := range infos {
		for _, name := range info.walFiles {
			it, err := wal.NewWALReader(filepath.Join(baseDir, name))
			require.NoError(t, err)
			for {
				dp, err := it.Next()
				require.NoError(t, err)
				if dp == nil {
					break
				}
				replayed = append(replayed, dp.Timestamp)
			}
			_ = it.Close()
		}
	}
	require.Equal(t, appended, replayed, "the WAL files of the block are not replayed in the order in which they were appended")
}
