package wal

import (
	"path/filepath"
	"testing"

	"github.com/siglens/siglens/pkg/segment/structs"
	"github.com/stretchr/testify/require"
)

// observingEncoder looks at the live WAL file at the moment Wal.Write asks it to encode
// the new content, i.e. at a point inside Write where the process may die.
type observingEncoder struct {
	MetricsMetaEncoder
	t       *testing.T
	path    string
	observe bool
}

func (e *observingEncoder) PrepareEncode(input any) ([]byte, error) {
	if e.observe {
		it, err := NewMetricsMetaEntryWalReader(e.path)
		require.NoError(e.t, err)
		entry, err := it.Next()
		_ = it.Close()
		require.NoError(e.t, err)
		require.NotNil(e.t, entry, "inside the second Wal.Write the live log holds no entry: a crash here loses the meta entry whose log write had completed")
	}
	return e.MetricsMetaEncoder.PrepareEncode(input)
}

// Demonstrates F-C10-b.  Before the repair Wal.Write was truncate() + writeBlockToFile() on the
// live file: between the two steps (where the new block is encoded) the log was empty, so a
// crash, or a failing second write, lost the entry whose write had completed.  With the repair
// the new content is built in a temporary file and renamed over the log.
func Test_Finding_C10b_CrashInsideWalWrite(t *testing.T) {
	path := filepath.Join(t.TempDir(), "mentry.wal")
	enc := &observingEncoder{t: t, path: path}
	w, err := NewWAL(path, enc)
	require.NoError(t, err)
	require.NoError(t, w.Write([]*structs.MetricsMeta{{MSegmentDir: "seg-1", NumBlocks: 3}}))

	// the state of the live log at a crash point inside the second Write
	enc.observe = true
	require.NoError(t, w.Write([]*structs.MetricsMeta{{MSegmentDir: "seg-1", NumBlocks: 4}}))
	enc.observe = false

	// a second Write that fails must leave the completed one replayable
	require.Error(t, w.Write("not meta entries"))
	it, err := NewMetricsMetaEntryWalReader(path)
	require.NoError(t, err)
	defer it.Close()
	entry, err := it.Next()
	require.NoError(t, err)
	require.NotNil(t, entry, "the meta entry whose log write had completed is gone after a failed Wal.Write")

	// and the handle keeps working after the rename
	require.NoError(t, w.Write([]*structs.MetricsMeta{{MSegmentDir: "seg-1", NumBlocks: 5}, {MSegmentDir: "seg-2", NumBlocks: 1}}))
	it2, err := NewMetricsMetaEntryWalReader(path)
	require.NoError(t, err)
	defer it2.Close()
	n := 0
	for {
		e, err := it2.Next()
		if err != nil || e == nil {
			break
		}
		n++
	}
	require.Equal(t, 2, n)
	require.NoError(t, w.DeleteWAL())
}
