package wal

import (
	"path/filepath"
	"testing"

	"github.com/siglens/siglens/pkg/segment/structs"
	"github.com/stretchr/testify/require"
)

// Demonstrates F-C10-b (recorded, not repaired).  The meta-entry WAL is rewritten by
// Wal.Write = truncate() + writeBlockToFile().  The test performs the first Write
// completely, then executes exactly the first step of the second Write (the real
// truncate()) and stops, which is the state a crash between the two steps leaves.
// Replay then yields no entry at all, although an append had completed before.
func Test_Finding_C10b_CrashInsideWalWrite(t *testing.T) {
	path := filepath.Join(t.TempDir(), "mentry.wal")
	w, err := NewWAL(path, &MetricsMetaEncoder{})
	require.NoError(t, err)
	require.NoError(t, w.Write([]*structs.MetricsMeta{{MSegmentDir: "seg-1", NumBlocks: 3}}))

	// second Write starts ... and the process dies after its first step
	require.NoError(t, w.truncate())

	it, err := NewMetricsMetaEntryWalReader(path)
	require.NoError(t, err)
	defer it.Close()
	entry, err := it.Next()
	require.NoError(t, err)
	require.NotNil(t, entry, "the meta entry whose log write had completed is gone after a crash inside the next Wal.Write")
}
