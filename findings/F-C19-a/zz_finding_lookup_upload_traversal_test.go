package lookups

import (
	"bytes"
	"mime/multipart"
	"os"
	"path/filepath"
	"testing"

	"github.com/siglens/siglens/pkg/config"
	"github.com/stretchr/testify/require"
	"github.com/valyala/fasthttp"
)

// Demonstrates F-C19-a: the `name` form value of a lookup upload is joined onto the
// lookups directory unchecked; `../../x.csv` creates/overwrites a file outside it.
func Test_Finding_C19a_LookupUploadNameEscapes(t *testing.T) {
	root := t.TempDir()
	config.InitializeTestingConfig(filepath.Join(root, "data") + "/")

	var body bytes.Buffer
	w := multipart.NewWriter(&body)
	require.NoError(t, w.WriteField("name", "../../../../escaped.csv"))
	fw, err := w.CreateFormFile("file", "upload.csv")
	require.NoError(t, err)
	_, _ = fw.Write([]byte("a,b\n1,2\n"))
	require.NoError(t, w.Close())

	ctx := &fasthttp.RequestCtx{}
	ctx.Request.Header.SetMethod("POST")
	ctx.Request.Header.SetContentType(w.FormDataContentType())
	ctx.Request.SetBody(body.Bytes())
	UploadLookupFile(ctx)

	found := ""
	_ = filepath.Walk(root, func(p string, info os.FileInfo, err error) error {
		if err == nil && info.Name() == "escaped.csv" {
			found = p
		}
		return nil
	})
	lookupsDir, _ := filepath.Abs(config.GetLookupPath())
	if found != "" {
		abs, _ := filepath.Abs(found)
		rel, _ := filepath.Rel(lookupsDir, abs)
		require.False(t, len(rel) >= 2 && rel[:2] == "..", "upload wrote %s, outside the lookups directory %s (status %d)", abs, lookupsDir, ctx.Response.StatusCode())
	}
	require.Equal(t, fasthttp.StatusBadRequest, ctx.Response.StatusCode(), "a name with path elements must be rejected")
}
