package writer

import (
	"os"
	"path/filepath"
	"testing"

	"github.com/siglens/siglens/pkg/config"
	"github.com/stretchr/testify/require"
)

// Demonstrates F-C19-b: the index name of an ingest request (`_index` of an ES bulk
// action, Splunk `index`, ...) reaches the open-segment store unchanged and becomes a
// path component.  With ../ segments the segment directory is created outside the data
// directory.
func Test_Finding_C19b_IndexNameEscapesDataDir(t *testing.T) {
	root := t.TempDir()
	dataDir := filepath.Join(root, "data") + "/"
	config.InitializeTestingConfig(dataDir)
	InitWriterNode()

	// an ordinary index has been ingested before (creates <data>/<host>/suffix/ ...)
	_, err := getOrCreateSegStore("stream-0", "ordinary-index", 0)
	require.NoError(t, err)

	evil := "../../../escaped-index"
	_, err = getOrCreateSegStore("stream-1", evil, 0)
	entries, _ := os.ReadDir(root)
	var names []string
	for _, e := range entries {
		names = append(names, e.Name())
	}
	require.Error(t, err, "an index name with ../ segments was accepted; entries next to the data directory: %v", names)
	require.NotContains(t, names, "escaped-index", "a directory was created outside the data directory")
}
