package tagstree

import (
	"os"
	"path/filepath"
	"strings"
	"testing"

	"github.com/stretchr/testify/require"
)

// Demonstrates F-C19-d (repaired: a tag key must be a single path element): a tag key taken from a metrics query
// (OpenTSDB `m=metric{../../x=...}`, PromQL label matchers) is appended to the tags-tree
// directory and opened.  A key with ../ makes the server open and parse a file outside
// the segment's tags-tree directory (and outside the data directory).
func Test_Finding_C19d_TagKeyEscapesTagsTreeDir(t *testing.T) {
	root := t.TempDir()
	base := filepath.Join(root, "data", "tth") + "/"
	require.NoError(t, os.MkdirAll(base, 0755))
	outside := filepath.Join(root, "outside-secret")
	require.NoError(t, os.WriteFile(outside, []byte("0123456789abcdef0123456789abcdef"), 0600))

	attr := &AllTagTreeReaders{baseDir: base, tagTrees: map[string]*TagTreeReader{}}
	_, errMissing := attr.initTagsTreeReader("../../does-not-exist")
	require.Error(t, errMissing)
	_, errOutside := attr.initTagsTreeReader("../../outside-secret")
	// if the name were confined to the directory both lookups would fail the same way (file not found)
	if errOutside != nil {
		norm := func(e error) string {
			return strings.ReplaceAll(strings.ReplaceAll(e.Error(), "outside-secret", "X"), "does-not-exist", "X")
		}
		require.Equal(t, norm(errMissing), norm(errOutside), "the reader opened and read a file outside the tags-tree directory (different outcome for an existing outside file)")
	} else {
		t.Fatalf("the reader opened and accepted a file outside the tags-tree directory")
	}
}
