package query

// F-C11-b: the old query pipeline (ApplyFilterOperator, used by the ES search API) dispatches each
// snapshotted segment on the search type recorded at snapshot time; a segment that rotates in between is
// looked up in the open-segment tables only and all of its events are missing from the answer.
// (Harness adapted from the demonstration of seeded change C11-m3.)
//
// Property C11: a search returns every event whose flush completed before the
// search began; an event never disappears while its segment moves from open
// (unrotated) to rotated.
//
// Schedule forced here (deterministically, single goroutine):
//   1. events are ingested and flushed into an open segment;
//   2. a match-all search takes its snapshot of the segment lists
//      (getAllSegmentsInQuery) -> the segment is listed as UNROTATED;
//   3. the segment is rotated (time based rotation) before the search gets to
//      that segment;
//   4. the search resolves the blocks to read for each snapshotted segment
//      (GetSSRsFromQSR, the call made by processor.Searcher.getBlocks).
// All flushed events must still be covered by the blocks resolved in step 4.

import (
	"encoding/json"
	"fmt"
	"testing"
	"time"

	dtu "github.com/siglens/siglens/pkg/common/dtypeutils"
	"github.com/siglens/siglens/pkg/config"
	"github.com/siglens/siglens/pkg/instrumentation"
	"github.com/siglens/siglens/pkg/segment/memory/limit"
	"github.com/siglens/siglens/pkg/segment/query/summary"
	"github.com/siglens/siglens/pkg/segment/results/segresults"
	. "github.com/siglens/siglens/pkg/segment/structs"
	. "github.com/siglens/siglens/pkg/segment/utils"
	"github.com/siglens/siglens/pkg/segment/writer"
	serverutils "github.com/siglens/siglens/pkg/server/utils"
	vtable "github.com/siglens/siglens/pkg/virtualtable"
	"github.com/stretchr/testify/assert"
	"github.com/stretchr/testify/require"
)

func fc11bCountRecords(t *testing.T, qsrs []*QuerySegmentRequest) (uint64, int) {
	t.Helper()
	qs := summary.InitQuerySummary(summary.LOGS, 7003)
	aggs := &QueryAggregators{}
	res, err := segresults.InitSearchResults(10000, aggs, RRCCmd, 7003)
	require.NoError(t, err)
	for _, qsr := range qsrs {
		// the per-segment dispatch of the old query pipeline (ApplyFilterOperator), used by the ES search API
		require.NoError(t, applyFilterOperatorSingleRequest(qsr, res, qs))
	}
	return uint64(len(res.GetResults())), 3
}

func Test_FC11b_OldPipelineSnapshotSurvivesRotation(t *testing.T) {
	const index = "fc11b"
	const streamid = "fc11b-stream"
	const numBatch = 3
	const numRec = 20

	config.InitializeTestingConfig(t.TempDir())
	limit.InitMemoryLimiter()
	instrumentation.InitMetrics()
	err := InitQueryNode(getMyIds, serverutils.ExtractKibanaRequests)
	require.NoError(t, err)
	writer.InitWriterNode()
	_ = vtable.InitVTable(serverutils.GetMyIds)

	cnameCache := make(map[uint64]string)
	var stackbuf [64]byte
	tsKey := "timestamp"
	for batch := 0; batch < numBatch; batch++ {
		for rec := 0; rec < numRec; rec++ {
			ts := uint64(batch*numRec+rec) + 1
			rawJson, err := json.Marshal(map[string]interface{}{
				"id":        fmt.Sprintf("ev-%d-%d", batch, rec),
				"batch":     fmt.Sprintf("batch-%d", batch),
				"timestamp": ts,
			})
			require.NoError(t, err)
			ple := writer.NewPLE()
			ple.SetRawJson(rawJson)
			ple.SetTimestamp(ts)
			ple.SetIndexName(index)
			err = writer.ParseRawJsonObject("", rawJson, &tsKey, stackbuf[:], ple)
			require.NoError(t, err)
			err = writer.AddEntryToInMemBuf(streamid, index, false, SIGNAL_EVENTS, 0, 0,
				cnameCache, stackbuf[:], []*writer.ParsedLogEvent{ple})
			require.NoError(t, err)
		}
		// complete the flush of this block
		d := time.Duration(1)
		time.Sleep(2 * time.Millisecond)
		writer.FlushWipBufferToFile(&d, nil)
	}
	expected := uint64(numBatch * numRec)

	// match-all search over the whole time range
	star, _ := CreateDtypeEnclosure("*", 0)
	filter := FilterCriteria{
		ExpressionFilter: &ExpressionFilter{
			LeftInput:      &FilterInput{Expression: &Expression{LeftInput: &ExpressionInput{ColumnName: "*"}}},
			FilterOperator: Equals,
			RightInput:     &FilterInput{Expression: &Expression{LeftInput: &ExpressionInput{ColumnValue: star}}},
		},
	}
	timeRange := &dtu.TimeRange{StartEpochMs: 0, EndEpochMs: expected + 10}
	node := &ASTNode{
		AndFilterCondition: &Condition{FilterCriteria: []*FilterCriteria{&filter}},
		TimeRange:          timeRange,
	}
	searchNode := ConvertASTNodeToSearchNode(node, 7003)
	ti := InitTableInfo(index, 0, false, nil)
	queryInfo, err := InitQueryInformation(searchNode, nil, timeRange, ti, 10000, 4, 7003,
		&DistributedQueryService{}, 0, 0, false)
	require.NoError(t, err)

	_, err = StartQuery(7003, true, nil, true)
	require.NoError(t, err)
	defer DeleteQuery(7003)

	// step 2: the search snapshots the segment lists
	qsrs, _, _, _, err := getAllSegmentsInQuery(queryInfo, time.Now())
	require.NoError(t, err)
	require.Len(t, qsrs, 1, "one open segment expected")
	segKey := qsrs[0].GetSegKey()
	require.True(t, writer.IsSegKeyUnrotated(segKey))

	// sanity: without any rotation every flushed event is covered
	got, blocks := fc11bCountRecords(t, qsrs)
	require.Equal(t, expected, got, "open segment: all flushed events must be covered")
	require.Equal(t, numBatch, blocks)

	// step 3: the segment is rotated after the snapshot was taken
	writer.ForceRotateSegmentsForTest()
	require.False(t, writer.IsSegKeyUnrotated(segKey), "segment should have been rotated")

	// step 4: the search now resolves blocks for the segment it snapshotted
	got, blocks = fc11bCountRecords(t, qsrs)
	assert.Equal(t, expected, got,
		"events flushed before the search began disappeared when the segment %v rotated under the search", segKey)
	assert.Equal(t, numBatch, blocks)
}
