package pipesearch

import (
	"context"
	"encoding/json"
	"os"
	"testing"
	"time"

	dtu "github.com/siglens/siglens/pkg/common/dtypeutils"
	"github.com/siglens/siglens/pkg/config"
	"github.com/siglens/siglens/pkg/segment/memory/limit"
	segmetadata "github.com/siglens/siglens/pkg/segment/metadata"
	"github.com/siglens/siglens/pkg/segment/query"
	sutils "github.com/siglens/siglens/pkg/segment/utils"
	"github.com/siglens/siglens/pkg/segment/writer"
	serverutils "github.com/siglens/siglens/pkg/server/utils"
	vtable "github.com/siglens/siglens/pkg/virtualtable"
	"github.com/stretchr/testify/require"
)

// F-C11-a: the column snapshot of ListColumnNamesHandler / the search's AllSearchColumnsByTimeRange read the
// rotated table first and the open-segment table second.  Rotation adds the segment to the rotated table and then
// removes it from the open table, so a segment that rotates between the two reads is in neither snapshot.
// The test performs the two reads in the order `first`, `second` with a rotation in between.
func snapshotColumns(t *testing.T, rotatedFirst bool, index string) map[string]struct{} {
	tr := &dtu.TimeRange{StartEpochMs: 0, EndEpochMs: 1 << 62}
	res := map[string]struct{}{}
	readRotated := func() { segmetadata.CollectColumnsForTheIndexesByTimeRange(tr, []string{index}, 0, res) }
	readOpen := func() { writer.CollectUnrotatedColumnsForTheIndexesByTimeRange(tr, []string{index}, 0, res) }
	if rotatedFirst {
		readRotated()
		writer.ForceRotateSegmentsForTest() // the segment rotates between the two reads
		readOpen()
	} else {
		readOpen()
		writer.ForceRotateSegmentsForTest()
		readRotated()
	}
	return res
}

func ingestOne(t *testing.T, index string) {
	cache := make(map[uint64]string)
	var buf [64]byte
	tsKey := "timestamp"
	raw, _ := json.Marshal(map[string]interface{}{"timestamp": 1700000000000, "special_col": "x"})
	ple := writer.NewPLE()
	ple.SetRawJson(raw)
	ple.SetTimestamp(1700000000000)
	ple.SetIndexName(index)
	require.NoError(t, writer.ParseRawJsonObject("", raw, &tsKey, buf[:], ple))
	require.NoError(t, writer.AddEntryToInMemBuf(index+"-stream", index, false, sutils.SIGNAL_EVENTS, 0, 0, cache, buf[:], []*writer.ParsedLogEvent{ple}))
	sl := time.Duration(1)
	time.Sleep(sl)
	writer.FlushWipBufferToFile(&sl, nil)
}

func Test_FC11a_ColumnSnapshotAcrossRotation(t *testing.T) {
	ctx, cancel := context.WithCancel(context.Background())
	go query.PullQueriesToRun(ctx)
	defer cancel()
	dir := t.TempDir() + "/"
	t.Cleanup(func() { os.RemoveAll(dir) })
	config.InitializeTestingConfig(dir)
	config.SetDataPath(dir)
	limit.InitMemoryLimiter()
	require.NoError(t, query.InitQueryNode(func() []int64 { return []int64{0} }, serverutils.ExtractKibanaRequests))
	writer.InitWriterNode()
	_ = vtable.InitVTable(serverutils.GetMyIds)

	ingestOne(t, "fc11a_open_first")
	if _, ok := snapshotColumns(t, false, "fc11a_open_first")["special_col"]; !ok {
		t.Errorf("open table first, rotated table second: the flushed column is missing from the snapshot")
	}
	ingestOne(t, "fc11a_rotated_first")
	if _, ok := snapshotColumns(t, true, "fc11a_rotated_first")["special_col"]; !ok {
		t.Errorf("rotated table first, open table second (the order ListColumnNamesHandler and the search use): a column of a segment that rotates between the two reads is in neither snapshot")
	}
}
