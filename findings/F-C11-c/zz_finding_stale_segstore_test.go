package writer

import (
	"encoding/json"
	"os"
	"strconv"
	"testing"
	"time"

	"github.com/siglens/siglens/pkg/config"
	sutils "github.com/siglens/siglens/pkg/segment/utils"
	server_utils "github.com/siglens/siglens/pkg/server/utils"
	vtable "github.com/siglens/siglens/pkg/virtualtable"
	"github.com/stretchr/testify/require"
)

func findingC11cPLE(t *testing.T, index string, id int) *ParsedLogEvent {
	var buf [64]byte
	raw, err := json.Marshal(map[string]interface{}{"id": "ev-" + strconv.Itoa(id), "timestamp": uint64(1000 + id)})
	require.Nil(t, err)
	ple := NewPLE()
	ple.SetRawJson(raw)
	ple.SetTimestamp(uint64(1000 + id))
	ple.SetIndexName(index)
	tsKey := "timestamp"
	require.Nil(t, ParseRawJsonObject("", raw, &tsKey, buf[:], ple))
	return ple
}

func findingC11cUnrotatedRecords(index string) int {
	UnrotatedInfoLock.RLock()
	defer UnrotatedInfoLock.RUnlock()
	total := 0
	for _, usi := range AllUnrotatedSegmentInfo {
		if usi.TableName == index {
			total += usi.RecordCount
		}
	}
	return total
}

// Demonstrates F-C11-c (repaired).  An ingest looks its SegStore up under the read side of
// allSegStoresLock, releases the lock and then adds the events under the SegStore's own lock.
// If the stale-SegStore clean-up runs in between and the SegStore is empty (it always is right
// after a rotation), the clean-up unregisters it; before the repair the ingest then put its
// events into a SegStore that no timer, rotation or shutdown flush ever visits again, so the
// accepted events were lost.  The test performs the two halves of AddEntryToInMemBuf by hand
// with a complete removeStaleSegments() between them.
func Test_Finding_C11c_IngestIntoSegStoreRemovedAsStale(t *testing.T) {
	dir, err := os.MkdirTemp("", "findingC11c")
	require.Nil(t, err)
	defer os.RemoveAll(dir)
	config.InitializeTestingConfig(dir)
	InitWriterNode()
	_ = vtable.InitVTable(server_utils.GetMyIds)
	SkipUploadOnRotate = true

	const index = "findingc11c"
	const streamid = "findingc11c-stream"
	cache := make(map[uint64]string)
	var buf [64]byte
	idle := time.Duration(1)

	for i := 0; i < 5; i++ {
		require.Nil(t, AddEntryToInMemBuf(streamid, index, false, sutils.SIGNAL_EVENTS, 0, 0, cache, buf[:], []*ParsedLogEvent{findingC11cPLE(t, index, i)}))
	}
	ForceRotateSegmentsForTest()
	require.Equal(t, 0, findingC11cUnrotatedRecords(index))

	// first half of AddEntryToInMemBuf: look the SegStore up
	segstore, err := getOrCreateSegStore(streamid, index, 0)
	require.Nil(t, err)
	require.Equal(t, 0, segstore.RecordCount)

	// the clean-up runs to completion: the empty SegStore is unregistered
	time.Sleep(time.Millisecond)
	removeStaleSegments()
	require.Nil(t, getSegStore(streamid), "the scenario needs the clean-up to remove the empty SegStore")

	// second half of AddEntryToInMemBuf: add the event to the SegStore that was looked up
	err = segstore.AddEntry(streamid, index, false, sutils.SIGNAL_EVENTS, 0, 0, cache, buf[:], []*ParsedLogEvent{findingC11cPLE(t, index, 100)})
	if err == nil {
		// accepted: then it must become searchable
		time.Sleep(time.Millisecond)
		FlushWipBufferToFile(&idle, nil)
		ForceRotateSegmentsForTest()
		require.Equal(t, uint16(0), segstore.wipBlock.blockSummary.RecCount,
			"an accepted event sits in the buffer of a SegStore that is not registered any more: nothing will ever flush it")
	}

	// the whole call (as the ingest path makes it) stores the event in a registered SegStore
	require.Nil(t, AddEntryToInMemBuf(streamid, index, false, sutils.SIGNAL_EVENTS, 0, 0, cache, buf[:], []*ParsedLogEvent{findingC11cPLE(t, index, 101)}))
	time.Sleep(time.Millisecond)
	FlushWipBufferToFile(&idle, nil)
	require.Equal(t, 1, findingC11cUnrotatedRecords(index))
}
