package metrics

import (
	"fmt"
	"os"
	"path/filepath"
	"sync"
	"testing"

	"github.com/siglens/siglens/pkg/config"
	"github.com/siglens/siglens/pkg/segment/reader/metrics/series"
	"github.com/siglens/siglens/pkg/segment/structs"
	sutils "github.com/siglens/siglens/pkg/segment/utils"
	"github.com/stretchr/testify/require"
)

// Demonstrates F-C10-a.  Datapoints were appended to the metrics WAL, the process
// crashed, and the restart's RecoverWALData is itself interrupted after it consumed
// the WAL file and before the rebuilt block is on disk (here: the flush cannot write
// because the segment directory is blocked; a second crash at that point leaves the
// same state).  The next restart must still be able to replay the datapoints.
func Test_Finding_C10a_RecoveryInterruptedBeforeFlush(t *testing.T) {
	config.InitializeTestingConfig(t.TempDir() + "/")
	const shard = "7"
	ms, err := InitMetricsSegment(0, shard)
	require.NoError(t, err)
	require.NoError(t, ms.mBlock.initNewDpWal())
	segID := ms.Suffix

	type dp struct {
		ts  uint32
		val float64
	}
	expected := map[uint64][]dp{}
	n := 2*sutils.WAL_BLOCK_FLUSH_SIZE + 1
	for i := 0; i < n; i++ {
		tsid := uint64(100 + i%5)
		d := dp{uint32(1_700_000_000 + i/5*15), float64(i) * 1.25}
		require.NoError(t, ms.mBlock.appendToWALBuffer(d.ts, d.val, tsid))
		if i < n-1 { // the last datapoint is only buffered, not appended to the log
			expected[tsid] = append(expected[tsid], d)
		}
	}
	walDir := getWALBaseDir()
	walFile := filepath.Join(walDir, fmt.Sprintf("shardID_%s_segID_%d_blockID_0_0.wal", shard, segID))
	st, err := os.Stat(walFile)
	require.NoError(t, err)
	require.Greater(t, st.Size(), int64(1))

	// ---- crash 1; restart 1 is interrupted between consuming the WAL and flushing ----
	metricsKey, _ := getBaseMetricsKey(segID, shard)
	blocker := filepath.Dir(filepath.Clean(metricsKey)) // .../final/ts/<shard>
	require.NoError(t, os.RemoveAll(blocker))
	require.NoError(t, os.MkdirAll(filepath.Dir(blocker), 0755))
	require.NoError(t, os.WriteFile(blocker, []byte("x"), 0644)) // directory cannot be created: flush fails
	RecoverWALData()
	require.NoError(t, os.Remove(blocker))

	// ---- restart 2 ----
	RecoverWALData()

	tssr, err := series.InitTimeSeriesReader(fmt.Sprintf("%s%d", metricsKey, segID))
	require.NoError(t, err, "the datapoints appended to the WAL are gone: the first recovery deleted the log before the block was flushed")
	defer tssr.Close()
	queryMetrics := &structs.MetricsQueryProcessingMetrics{UpdateLock: &sync.Mutex{}}
	blockReader, err := tssr.InitReaderForBlock(uint16(0), queryMetrics)
	require.NoError(t, err, "the datapoints appended to the WAL are gone: the first recovery deleted the log before the block was flushed")
	for tsid, exp := range expected {
		itr, exists, err := blockReader.GetTimeSeriesIterator(tsid)
		require.NoError(t, err)
		require.True(t, exists, "series %d missing after recovery", tsid)
		var got []dp
		for itr.Next() {
			ts, val := itr.At()
			got = append(got, dp{ts, val})
		}
		require.Equal(t, exp, got)
	}
}
