package microreader

import (
	"encoding/binary"
	"os"
	"path/filepath"
	"testing"

	"github.com/stretchr/testify/require"
)

// Demonstrates F-C18-a (repaired).  ReadBlockSummaries advanced its cursor by the 4-byte length word
// of the next block summary before checking that the file still holds that many bytes: a .bsu file
// with one to three extra (or left-over) bytes after its last block summary made the reader slice
// past the end of its buffer and panic, in a query goroutine that has no recover.
func Test_Finding_C18a_BlockSummaryFileWithTrailingBytes(t *testing.T) {
	body := make([]byte, 0)
	body = binary.LittleEndian.AppendUint16(body, 0)    // blkNum
	body = binary.LittleEndian.AppendUint64(body, 2000) // highTs
	body = binary.LittleEndian.AppendUint64(body, 1000) // lowTs
	body = binary.LittleEndian.AppendUint16(body, 10)   // recCount
	body = binary.LittleEndian.AppendUint16(body, 1)    // numCols
	body = binary.LittleEndian.AppendUint16(body, 1)
	body = append(body, 'a')
	body = binary.LittleEndian.AppendUint64(body, 0)
	body = binary.LittleEndian.AppendUint32(body, 100)
	file := binary.LittleEndian.AppendUint32(nil, uint32(4+len(body)))
	file = append(file, body...)

	for extra := 1; extra <= 3; extra++ {
		fname := filepath.Join(t.TempDir(), "0.bsu")
		require.NoError(t, os.WriteFile(fname, append(append([]byte{}, file...), make([]byte, extra)...), 0644))
		require.NotPanics(t, func() {
			_, _, err := ReadBlockSummaries(fname, false)
			require.Error(t, err, "a damaged block summary file must be reported")
		}, "%d trailing byte(s)", extra)
	}
}
