package otlp

import (
	"testing"

	segwriter "github.com/siglens/siglens/pkg/segment/writer"
	"github.com/siglens/siglens/pkg/virtualtable"
	"github.com/stretchr/testify/require"
	collogpb "go.opentelemetry.io/proto/otlp/collector/logs/v1"
	commonpb "go.opentelemetry.io/proto/otlp/common/v1"
	logpb "go.opentelemetry.io/proto/otlp/logs/v1"
)

// Demonstrates F-C16-a: an OTLP log record carries its own time (time_unix_nano) but
// is stored with the arrival time: the handler sets the event time from the record and
// ProcessIndexRequestPle then overwrites it, because the record's JSON has no field
// under the configured timestamp key.
func Test_Finding_C16a_OtlpLogKeepsItsOwnTime(t *testing.T) {
	myid := int64(0)
	initTestConfig(t)
	require.NoError(t, virtualtable.InitVTable(func() []int64 { return []int64{myid} }))
	segwriter.InitWriterNode()

	const eventMs = uint64(1_600_000_000_000) // 2020-09-13, far from "now"
	req := &collogpb.ExportLogsServiceRequest{
		ResourceLogs: []*logpb.ResourceLogs{{
			ScopeLogs: []*logpb.ScopeLogs{{
				LogRecords: []*logpb.LogRecord{{
					TimeUnixNano: eventMs * 1_000_000,
					SeverityText: "INFO",
					Body:         &commonpb.AnyValue{Value: &commonpb.AnyValue_StringValue{StringValue: "hello"}},
				}},
			}},
		}},
	}
	total, failed := ingestLogs(req, myid)
	require.Equal(t, 1, total)
	require.Equal(t, 0, failed)

	stored := segwriter.GetUnrotatedVTableTimestamps(myid)
	require.NotEmpty(t, stored)
	for index, rng := range stored {
		require.Equal(t, eventMs, rng.Earliest, "index %s: the record carried time %d ms but was stored with %d", index, eventMs, rng.Earliest)
		require.Equal(t, eventMs, rng.Latest)
	}
}
