package writer

import (
	"testing"

	"github.com/siglens/siglens/pkg/config"
	segwriter "github.com/siglens/siglens/pkg/segment/writer"
	server_utils "github.com/siglens/siglens/pkg/server/utils"
	vtable "github.com/siglens/siglens/pkg/virtualtable"
	"github.com/stretchr/testify/require"
)

// Demonstrates F-C15-c (recorded, not repaired): when the store call fails for a
// batch (here: the index name is rejected by the segment store; any store-level
// failure such as the open-store limit behaves the same) the error is only logged:
// the items were already acknowledged with 201 and `errors` stays false.
func Test_Finding_C15c_StoreFailureIsAcknowledgedAsCreated(t *testing.T) {
	config.InitializeTestingConfig(t.TempDir())
	segwriter.InitWriterNode()
	_ = vtable.InitVTable(server_utils.GetMyIds)
	body := `{"index":{"_index":"bad/index"}}` + "\n" + `{"a":"never-stored"}` + "\n"
	_, resp, _ := HandleBulkBody([]byte(body), nil, 0, 0, false)
	items := resp["items"].([]interface{})
	require.Len(t, items, 1)
	m := items[0].(map[string]interface{})
	st := m["status"]
	if st == nil {
		st = m["index"].(map[string]interface{})["status"]
	}
	if resp["errors"] == false {
		require.NotEqualValues(t, 201, st, "the document could not be stored (the segment store rejected the batch) but its item says created and errors=false")
	}
}
