package sortindex

import (
	"os"
	"path/filepath"
	"testing"

	sutils "github.com/siglens/siglens/pkg/segment/utils"
	"github.com/stretchr/testify/require"
)

// Demonstrates F-C19-e (repaired: the name is cleaned as a rooted path): a sort column name set through the
// sort-columns API (JSON body {"indexName":..,"columns":["../../x"]}) is joined onto the
// segment directory when the sort index of a rotated segment is written; a column name
// with ../ segments (JSON keys may contain them) places the .srt file outside the
// segment directory and, with enough segments, outside the data directory.
func Test_Finding_C19e_SortColumnNameEscapesSegmentDir(t *testing.T) {
	root := t.TempDir()
	segkey := filepath.Join(root, "data", "final", "idx", "stream", "0", "0")
	require.NoError(t, os.MkdirAll(filepath.Dir(segkey), 0755))
	err := writeSortIndex(segkey, "../../../../../../escaped", SortAsAuto, map[sutils.CValueEnclosure]map[uint16][]uint16{})
	require.NoError(t, err)
	_, statErr := os.Stat(filepath.Join(root, "escaped_auto.srt"))
	require.True(t, os.IsNotExist(statErr), "the sort index file was written outside the data directory: %s", filepath.Join(root, "escaped_auto.srt"))
}
