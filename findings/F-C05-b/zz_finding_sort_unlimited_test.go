package processor

import (
	"io"
	"math"
	"testing"

	"github.com/siglens/siglens/pkg/segment/query/iqr"
	"github.com/siglens/siglens/pkg/segment/structs"
	sutils "github.com/siglens/siglens/pkg/segment/utils"
	"github.com/stretchr/testify/require"
)

// Demonstrates F-C05-b (repaired).  `sort 0 <field>` means "no limit"; the SPL parser stores it as
// Limit = math.MaxUint64.  sortProcessor.Process passed int(Limit) = -1 to IQR.Sort, which took the
// "few records" path, asked GetTopN for the top -1 records and compared the first row with the zero
// Record of an empty heap: a nil dereference in the query goroutine (which has no recover).
func Test_Finding_C05b_SortWithoutLimit(t *testing.T) {
	p := &sortProcessor{options: &structs.SortExpr{SortEles: []*structs.SortElement{{Field: "a", SortByAsc: true}}, Limit: math.MaxUint64}}
	in := iqr.NewIQR(0)
	require.NoError(t, in.AppendKnownValues(map[string][]sutils.CValueEnclosure{"a": {
		{Dtype: sutils.SS_DT_SIGNED_NUM, CVal: int64(3)}, {Dtype: sutils.SS_DT_SIGNED_NUM, CVal: int64(1)}, {Dtype: sutils.SS_DT_SIGNED_NUM, CVal: int64(2)}}}))
	_, err := p.Process(in)
	require.NoError(t, err)
	out, err := p.Process(nil)
	require.Equal(t, io.EOF, err)
	vals, err := out.ReadColumn("a")
	require.NoError(t, err)
	require.Equal(t, []sutils.CValueEnclosure{{Dtype: sutils.SS_DT_SIGNED_NUM, CVal: int64(1)}, {Dtype: sutils.SS_DT_SIGNED_NUM, CVal: int64(2)}, {Dtype: sutils.SS_DT_SIGNED_NUM, CVal: int64(3)}}, vals)
}
