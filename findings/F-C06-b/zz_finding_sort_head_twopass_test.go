package processor

import (
	"fmt"
	"io"
	"testing"

	"github.com/siglens/siglens/pkg/segment/query/iqr"
	"github.com/siglens/siglens/pkg/segment/structs"
	sutils "github.com/siglens/siglens/pkg/segment/utils"
	"github.com/stretchr/testify/require"
)

type findingC06bStream struct {
	batches [][]string
	next    int
}

func (s *findingC06bStream) Fetch() (*iqr.IQR, error) {
	if s.next >= len(s.batches) {
		return nil, io.EOF
	}
	values := make([]sutils.CValueEnclosure, 0)
	for _, v := range s.batches[s.next] {
		values = append(values, sutils.CValueEnclosure{Dtype: sutils.SS_DT_STRING, CVal: v})
	}
	s.next++
	result := iqr.NewIQR(0)
	if err := result.AppendKnownValues(map[string][]sutils.CValueEnclosure{"k": values}); err != nil {
		return nil, err
	}
	return result, nil
}
func (s *findingC06bStream) Rewind()        { s.next = 0 }
func (s *findingC06bStream) Cleanup()       {}
func (s findingC06bStream) String() string { return "<finding C06-b stream>" }

func findingC06bDrain(t *testing.T, dp *DataProcessor) []string {
	rows := make([]string, 0)
	for i := 0; i < 1000; i++ {
		out, err := dp.Fetch()
		if err != nil && err != io.EOF {
			require.NoError(t, err)
		}
		if out != nil && out.NumberOfRecords() > 0 {
			values, readErr := out.ReadColumn("k")
			require.NoError(t, readErr)
			for _, value := range values {
				rows = append(rows, fmt.Sprintf("%v", value.CVal))
			}
		}
		if err == io.EOF {
			return rows
		}
	}
	t.Fatalf("no EOF after 1000 fetches")
	return nil
}

// Demonstrates F-C06-b (repaired).  `sort k | head 2 | fillnull`: fillnull without a field list is a
// two-pass command, so the chain above it is read twice.  head shortens the IQR that sort handed out
// in place; on the second pass sort noticed that its stored result had changed, declined to replay
// it - and then merged the rewound input INTO the shortened result, so records came out twice
// (a, a instead of a, b).
func Test_Finding_C06b_SortBelowARowDroppingCommandReadTwice(t *testing.T) {
	batches := [][]string{{"d", "b"}, {"a", "c"}, {"e"}}
	run := func(twoPass bool) []string {
		sortDP := NewSortDP(&structs.SortExpr{SortEles: []*structs.SortElement{{Field: "k", SortByAsc: true, Op: "str"}}, Limit: 100})
		sortDP.streams = []*CachedStream{NewCachedStream(&findingC06bStream{batches: batches})}
		headDP := NewHeadDP(&structs.HeadExpr{MaxRows: 2})
		headDP.streams = []*CachedStream{NewCachedStream(sortDP)}
		if !twoPass {
			return findingC06bDrain(t, headDP)
		}
		fill := NewFillnullDP(&structs.FillNullExpr{Value: "0"})
		require.True(t, fill.IsTwoPassCmd())
		fill.streams = []*CachedStream{NewCachedStream(headDP)}
		return findingC06bDrain(t, fill)
	}
	require.Equal(t, []string{"a", "b"}, run(false), "sort | head 2 read once")
	require.Equal(t, []string{"a", "b"}, run(true), "sort | head 2 read twice (below a two-pass command)")
}
