package query

import (
	"testing"
	"time"
)

// Demonstrates the ABBA deadlock between RunningQueryState.rqsLock and arqMapLock:
// RestartQuery holds rqsLock and then takes arqMapLock (write); SetAllColsInAggsForQid
// (and GetAllColsInAggsForQid) held arqMapLock (read) while taking rqsLock.
// The schedule is forced: the test plays RestartQuery's first step (rqsLock held),
// lets SetAllColsInAggsForQid run, then plays RestartQuery's second step.
func Test_Finding_C17c_LockOrderDeadlock(t *testing.T) {
	qid := uint64(987654)
	rQuery, err := StartQuery(qid, true, nil, true)
	if err != nil {
		t.Fatalf("StartQuery: %v", err)
	}
	defer DeleteQuery(qid)

	// step 1 of RestartQuery: rQuery.rqsLock.Lock()
	rQuery.rqsLock.Lock()

	setDone := make(chan struct{})
	go func() {
		SetAllColsInAggsForQid(qid, map[string]struct{}{"a": {}})
		close(setDone)
	}()
	time.Sleep(200 * time.Millisecond) // let it reach rqsLock.Lock()

	// step 2 of RestartQuery: arqMapLock.Lock()
	gotMapLock := make(chan struct{})
	go func() {
		arqMapLock.Lock()
		arqMapLock.Unlock() //nolint
		close(gotMapLock)
	}()
	select {
	case <-gotMapLock:
	case <-time.After(2 * time.Second):
		t.Errorf("deadlock: RestartQuery's arqMapLock.Lock() cannot proceed while SetAllColsInAggsForQid holds arqMapLock.RLock and waits for rqsLock")
	}
	rQuery.rqsLock.Unlock() // end of RestartQuery
	select {
	case <-setDone:
	case <-time.After(2 * time.Second):
		t.Errorf("SetAllColsInAggsForQid never finished")
	}
}
