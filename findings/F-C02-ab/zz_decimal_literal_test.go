package pipesearch

import (
	"context"
	"encoding/json"
	"os"
	"sort"
	"testing"
	"time"

	"github.com/siglens/siglens/pkg/config"
	"github.com/siglens/siglens/pkg/segment"
	"github.com/siglens/siglens/pkg/segment/memory/limit"
	"github.com/siglens/siglens/pkg/segment/query"
	"github.com/siglens/siglens/pkg/segment/structs"
	sutils "github.com/siglens/siglens/pkg/segment/utils"
	"github.com/siglens/siglens/pkg/segment/writer"
	serverutils "github.com/siglens/siglens/pkg/server/utils"
	vtable "github.com/siglens/siglens/pkg/virtualtable"
	"github.com/stretchr/testify/require"
)

func fc02Ingest(t *testing.T, index string, events []map[string]interface{}) {
	cache := make(map[uint64]string)
	var buf [64]byte
	tsKey := "timestamp"
	for i, ev := range events {
		ev["timestamp"] = uint64(i + 1)
		raw, _ := json.Marshal(ev)
		ple := writer.NewPLE()
		ple.SetRawJson(raw)
		ple.SetTimestamp(uint64(i + 1))
		ple.SetIndexName(index)
		require.NoError(t, writer.ParseRawJsonObject("", raw, &tsKey, buf[:], ple))
		require.NoError(t, writer.AddEntryToInMemBuf(index+"-stream", index, false, sutils.SIGNAL_EVENTS, 0, 0, cache, buf[:], []*writer.ParsedLogEvent{ple}))
	}
	sl := time.Duration(1)
	time.Sleep(sl)
	writer.FlushWipBufferToFile(&sl, nil)
}

func fc02Search(t *testing.T, index, spl string, n int, qid uint64) []int {
	astNode, aggs, _, err := ParseRequest(spl, 1, uint64(n)+10, qid, "Splunk QL", index)
	require.NoError(t, err, spl)
	if aggs == nil {
		aggs = &structs.QueryAggregators{}
	}
	aggs.EarlyExit = false
	qc := structs.InitQueryContext(index, uint64(10000), 0, 0, false, nil)
	res := segment.ExecuteQuery(astNode, aggs, qid, qc)
	require.Len(t, res.ErrList, 0, spl)
	ids := []int{}
	for _, rrc := range res.AllRecords {
		ids = append(ids, int(rrc.TimeStamp)-1)
	}
	sort.Ints(ids)
	return ids
}

func Test_FC02ab_DecimalLiteralOnIntegerValues(t *testing.T) {
	ctx, cancel := context.WithCancel(context.Background())
	go query.PullQueriesToRun(ctx)
	defer cancel()
	dir := t.TempDir() + "/"
	t.Cleanup(func() { os.RemoveAll(dir) })
	config.InitializeTestingConfig(dir)
	config.SetDataPath(dir)
	limit.InitMemoryLimiter()
	require.NoError(t, query.InitQueryNode(func() []int64 { return []int64{0} }, serverutils.ExtractKibanaRequests))
	writer.InitWriterNode()
	_ = vtable.InitVTable(serverutils.GetMyIds)
	events := []map[string]interface{}{{"latency": 5}, {"latency": 8}, {"latency": 12}, {"latency": 30}}
	fc02Ingest(t, "probeint", events)
	mixed := []map[string]interface{}{{"latency": 8}, {"latency": 7.5}, {"latency": 9}}
	fc02Ingest(t, "probemixed", mixed)
	q2 := uint64(9300)
	for _, q := range []struct {
		spl  string
		want []int
	}{
		{"latency=8.5", []int{}},
		{"latency<8.5", []int{0, 1}},
		{"latency>=8.5", []int{2}},
		{"latency>8.5", []int{2}},
		{"latency!=8.5", []int{0, 1, 2}},
	} {
		q2++
		got := fc02Search(t, "probemixed", q.spl, len(mixed), q2)
		if !equalInts(got, q.want) {
			t.Errorf("F-C02-a (record-level compare, mixed int/float column) %-14s want %v got %v", q.spl, q.want, got)
		}
	}
	qid := uint64(9100)
	for _, q := range []struct {
		spl  string
		want []int
	}{
		{"latency>8", []int{2, 3}},
		{"latency>8.5", []int{2, 3}},
		{"latency<8.5", []int{0, 1}},
		{"latency=30.0", []int{3}},
		{"latency>=8.0", []int{1, 2, 3}},
	} {
		qid++
		got := fc02Search(t, "probeint", q.spl, len(events), qid)
		if !equalInts(got, q.want) {
			t.Errorf("F-C02-b (range-index pruning, integer-only column) %-14s want %v got %v", q.spl, q.want, got)
		}
	}
}

func equalInts(a, b []int) bool {
	if len(a) != len(b) {
		return false
	}
	for i := range a {
		if a[i] != b[i] {
			return false
		}
	}
	return true
}
