package query

import (
	"fmt"
	"testing"
)

// F-C17-e: query-DSL documents with an unexpected JSON type at a place where the walker asserts a type
// without checking.  There is no recover in the server, so each panic here terminates the process.
func Test_FC17e_MalformedDslIsAnErrorNotAPanic(t *testing.T) {
	bodies := []string{
		`{"size":"10","query":{"match_all":{}}}`,
		`{"query":{"multi_match":{"query":5,"fields":["a"]}}}`,
		`{"query":{"multi_match":{"query":"x","type":7,"fields":["a"]}}}`,
		`{"query":{"bool":{"must":[{"match_phrase":{"a":5}}]}}}`,
		`{"query":{"bool":{"must":[{"terms":{"a":[1,2]}}]}}}`,
		`{"query":{"bool":{"must":[{"query_string":{"query":5}}]}}}`,
		`{"query":{"bool":{"must":[{"multi_match":{"query":5,"type":"phrase_prefix","fields":["a"]}}]}}}`,
		`{"query":{"bool":{"must":[{"multi_match":{"query":"x","type":7,"fields":["a"]}}]}}}`,
		`{"query":{"bool":{"must":[{"match_phrase":{}}]}}}`,
		`{"query":{"bool":{"filter":[{"terms":{"status":[200,404]}}]}}}`,
	}
	for _, body := range bodies {
		func() {
			defer func() {
				if r := recover(); r != nil {
					t.Errorf("panic for %s: %v", body, fmt.Sprint(r))
				}
			}()
			_, _, _, _, err := ParseRequest([]byte(body), 1, false)
			t.Logf("%s -> err=%v", body, err)
		}()
	}
}
