package writer

import (
	"fmt"
	"os"
	"os/exec"
	"path/filepath"
	"syscall"
	"testing"

	"github.com/siglens/siglens/pkg/segment/structs"
)

// Demonstrates F-C07-a: the process stops inside WriteSfm after the live .sfm was
// opened with O_TRUNC and before the new content is written.  A child process runs
// the second WriteSfm under RLIMIT_FSIZE smaller than the new content, so the
// open(O_TRUNC) system call completes and the write does not (EFBIG); the child then
// exits.  The bytes on disk are exactly those a kill -9 between the two system calls
// leaves.  After the "restart" the .sfm written by the earlier, completed flush must
// still be readable.
func Test_Finding_C07a_CrashInsideWriteSfm(t *testing.T) {
	if dir := os.Getenv("FINDING_C07A_CHILD_DIR"); dir != "" {
		segkey := filepath.Join(dir, "seg", "0", "0")
		var rl syscall.Rlimit
		rl.Cur, rl.Max = 512, 512
		_ = syscall.Setrlimit(syscall.RLIMIT_FSIZE, &rl)
		cols := map[string]*structs.ColSizeInfo{}
		for i := 0; i < 400; i++ {
			cols[fmt.Sprintf("column_number_%d", i)] = &structs.ColSizeInfo{CmiSize: 1, CsgSize: 2}
		}
		WriteRunningSegMeta(&structs.SegMeta{SegmentKey: segkey, VirtualTableName: "idx", RecordCount: 20, NumBlocks: 2, ColumnNames: cols})
		os.Exit(3) // the process ends here; nothing else is written
	}
	dir := t.TempDir()
	segkey := filepath.Join(dir, "seg", "0", "0")
	if err := os.MkdirAll(filepath.Dir(segkey), 0755); err != nil {
		t.Fatal(err)
	}
	// flush 1 completes
	WriteRunningSegMeta(&structs.SegMeta{SegmentKey: segkey, VirtualTableName: "idx", RecordCount: 10, NumBlocks: 1})
	sfm, err := ReadSfm(segkey)
	if err != nil || sfm.SegMeta == nil || sfm.SegMeta.RecordCount != 10 {
		t.Fatalf("setup: sfm of the completed flush unreadable: %v", err)
	}
	// flush 2 crashes inside WriteSfm
	cmd := exec.Command(os.Args[0], "-test.run", "Test_Finding_C07a_CrashInsideWriteSfm")
	cmd.Env = append(os.Environ(), "FINDING_C07A_CHILD_DIR="+dir)
	out, _ := cmd.CombinedOutput()
	if cmd.ProcessState == nil || cmd.ProcessState.ExitCode() != 3 {
		t.Fatalf("child did not run the second WriteSfm; output: %s", out)
	}
	// restart: recovery reads the .sfm
	sfm, err = ReadSfm(segkey)
	if err != nil {
		t.Fatalf("after a crash inside WriteSfm the .sfm of the completed flush is unreadable (%v): recovery drops every block flushed earlier", err)
	}
	if sfm.SegMeta == nil || sfm.SegMeta.RecordCount != 10 {
		t.Fatalf("after a crash inside WriteSfm the .sfm does not describe the completed flush: %+v", sfm.SegMeta)
	}
}
